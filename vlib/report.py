"""Obligation bookkeeping, verdict rule, evidence files, known findings, replays.

Verdict rule (DESIGN.md section 0):
  discharged   - solver said the negated property is unsat on every path
  inconclusive - unknown / timeout / spurious (non-reproducing) model
  unencoded    - outside the encodable fragment (reason recorded)
  violation    - solver model (or solver-chosen case) that REPRODUCES on the
                 real unpatched code in a fresh process
Exit codes: 0 held / only known findings; 1 violation; 2 harness error.
"""
from __future__ import annotations

import hashlib
import json
import os
import subprocess
import sys
import time
from collections import Counter

ROOT = os.path.dirname(os.path.dirname(os.path.abspath(__file__)))
PY = os.path.join(ROOT, ".venv", "bin", "python")


class HarnessError(Exception):
    pass


def load_known():
    p = os.path.join(ROOT, "known_findings.json")
    if not os.path.exists(p):
        return []
    with open(p) as f:
        return json.load(f).get("findings", [])


class _HarnessErrors(list):
    """harness errors of a run; an item that hit the hard per-item wall-clock limit of vlib.par (the solver did not return) is not an error
    of the harness but an undecided item: it is recorded as one inconclusive obligation (the coverage floor still applies)"""

    def __init__(self, ctx):
        super().__init__()
        self._ctx = ctx

    def append(self, text):
        if "hard limit of" in str(text):
            self._ctx.hard_timeouts += 1
            self._ctx.ob(f"item-{self._ctx.hard_timeouts}:hard-time-limit", "inconclusive", "hard per-item time limit reached (solver did not return)")
            self._ctx.log("HARD-TIMEOUT:", str(text)[:300])
        else:
            super().append(text)


class Ctx:

    def __init__(self, pid: str, tier: str, seed: int, level: str = "other"):
        self.pid = pid
        self.tier = tier
        self.seed = seed
        self.level = level
        self.t0 = time.time()
        self.obl = []  # (name, verdict, detail)
        self.samples = []
        self.verdicts = Counter()
        self.unencoded_reasons = Counter()
        self.inconclusive_reasons = Counter()
        self.violations = []
        self.known_hits = []
        self.queries = 0
        self.solver_s = 0.0
        self.paths = 0
        self.replays = 0
        self.spurious = 0
        self.nontrivial = set()
        self.functions_encoded = []
        self.bounds = []
        self.stubs = []
        self.outside = []
        self.assumptions = []
        self.trusted = []
        self.extra = {}
        self.explanation = ""
        self.known = [k for k in load_known() if k.get("property") == pid]
        self.hard_timeouts = 0
        self.harness_errors = _HarnessErrors(self)

    # ---- bookkeeping -------------------------------------------------
    def log(self, *a):
        print(*a, flush=True)

    def ob(self, name: str, verdict: str, detail=None, nontrivial=True, sample=None):
        assert verdict in ("discharged", "inconclusive", "unencoded")
        self.verdicts[verdict] += 1
        if verdict == "unencoded":
            self.unencoded_reasons[str(detail)[:80]] += 1
        if verdict == "inconclusive":
            self.inconclusive_reasons[str(detail)[:80]] += 1
        if nontrivial and verdict == "discharged":
            self.nontrivial.add(name)
        self.obl.append((name, verdict))
        if sample is not None and len(self.samples) < 12:
            self.samples.append(sample)
        elif len(self.samples) < 6:
            self.samples.append({"obligation": name, "verdict": verdict,
                                 "detail": (str(detail)[:200] if detail is not None else None)})

    def add_solver(self, n: int, secs: float):
        self.queries += n
        self.solver_s += secs

    # ---- violations --------------------------------------------------
    def probe(self, key: str, description: str, script: str) -> bool:
        """a further concrete point for an obligation the solver left undecided (spurious model / unknown): replayed like a candidate; a
        point that reproduces is a violation like any other, one that does not changes nothing (the obligation stays inconclusive)"""
        os.makedirs(os.path.join(ROOT, "replays"), exist_ok=True)
        h = hashlib.sha1((key + script).encode()).hexdigest()[:10]
        path = os.path.join(ROOT, "replays", f"{self.pid}-{h}.json")
        with open(path, "w") as f:
            json.dump({"property": self.pid, "key": key, "description": description, "script": script, "extra": "probe"}, f, indent=1, default=str)
        self.replays += 1
        ok, _out = run_replay(path, timeout=60)
        if not ok:
            try:
                os.remove(path)
            except OSError:
                pass
            return False
        for k in self.known:
            if k.get("status", "known") == "known" and k["key"] == key:
                self.known_hits.append(key)
                self.log(f"KNOWN-FINDING: property={self.pid} {key}: {k.get('what', description)}")
                self.obl.append((key, "known-finding"))
                self.verdicts["known_finding"] += 1
                return True
        self.violations.append({"key": key, "description": description, "replay": path})
        self.verdicts["violation"] += 1
        self.obl.append((key, "violation"))
        self.log(f"VIOLATION property={self.pid} replay={path}")
        self.log(f"  key={key}: {description}")
        return True

    def violation(self, key: str, description: str, script: str, extra=None) -> bool:
        """Register a candidate violation.  `script` is a standalone Python
        program that exits 1 (printing REPRODUCED) iff the violation shows on
        the real, unpatched code.  It is replayed in a fresh process before
        anything is reported.  Returns True if it reproduced."""
        os.makedirs(os.path.join(ROOT, "replays"), exist_ok=True)
        h = hashlib.sha1((key + script).encode()).hexdigest()[:10]
        path = os.path.join(ROOT, "replays", f"{self.pid}-{h}.json")
        rec = {"property": self.pid, "key": key, "description": description,
               "script": script, "extra": extra}
        with open(path, "w") as f:
            json.dump(rec, f, indent=1, default=str)
        self.replays += 1
        ok, out = run_replay(path)
        if ok is None:
            self.harness_errors.append(f"replay crashed for {key}: {out[-400:]}")
            self.verdicts["inconclusive"] += 1
            self.inconclusive_reasons["replay crashed"] += 1
            return False
        if not ok:
            self.spurious += 1
            self.log(f"SPURIOUS property={self.pid} key={key} (model did not reproduce on real code)")
            self.verdicts["inconclusive"] += 1
            self.inconclusive_reasons["spurious model"] += 1
            self.obl.append((key, "inconclusive"))
            return False
        for k in self.known:
            if k.get("status", "known") == "known" and k["key"] == key:
                self.known_hits.append(key)
                self.log(f"KNOWN-FINDING: property={self.pid} {key}: {k.get('what', description)}")
                self.obl.append((key, "known-finding"))
                self.verdicts["known_finding"] += 1
                return True
        self.violations.append({"key": key, "description": description, "replay": path})
        self.verdicts["violation"] += 1
        self.obl.append((key, "violation"))
        self.log(f"VIOLATION property={self.pid} replay={path}")
        self.log(f"  key={key}: {description}")
        return True

    # ---- finish ------------------------------------------------------
    def finish(self):
        wall = time.time() - self.t0
        n_ob = len(self.obl)
        cov = {
            "explanation": self.explanation,
            "obligations": n_ob,
            "discharged": self.verdicts["discharged"],
            "inconclusive": self.verdicts["inconclusive"],
            "unencoded": self.verdicts["unencoded"],
            "known_findings_hit": sorted(set(self.known_hits)),
            "violations": [v["key"] for v in self.violations],
            "unencoded_reasons": dict(self.unencoded_reasons.most_common(25)),
            "inconclusive_reasons": dict(self.inconclusive_reasons.most_common(25)),
            "evaluations": max(n_ob, 1),
            "distinct_nontrivial": len(self.nontrivial),
            "rule": "one evaluation = one obligation (an SMT query or a symbolic path with its assertion); "
                    "non-trivial = discharged by a solver query that contained at least one symbolic variable; "
                    "distinct by obligation name",
            "samples": self.samples or [{"note": "no obligations generated"}],
            "functions_encoded": self.functions_encoded,
            "bounds": self.bounds,
            "outside_bounds": self.outside,
            "stubs": self.stubs,
            "paths": self.paths,
            "queries": self.queries,
            "solver_s": round(self.solver_s, 3),
            "replays": self.replays,
            "spurious_models": self.spurious,
            "trusted_base": self.trusted,
            "harness_errors": list(self.harness_errors),
        }
        cov.update(self.extra)
        ev = {
            "property_id": self.pid,
            "tier": self.tier,
            "seed": self.seed,
            "level": self.level,
            "coverage": cov,
            "assumptions": self.assumptions,
            "wall_s": round(wall, 2),
            "violations": len(self.violations),
        }
        # VERIF_EVIDENCE_DIR: only the seed tools set it, so that runs against a changed scratch tree never overwrite the evidence of /repo
        evdir = os.environ.get("VERIF_EVIDENCE_DIR") or os.path.join(ROOT, "evidence")
        os.makedirs(evdir, exist_ok=True)
        with open(os.path.join(evdir, f"{self.pid}.json"), "w") as f:
            json.dump(ev, f, indent=1, default=str)
        self.log(f"[{self.pid}] tier={self.tier} obligations={n_ob} " +
                 " ".join(f"{k}={v}" for k, v in sorted(self.verdicts.items())) +
                 f" queries={self.queries} solver_s={self.solver_s:.1f} wall_s={wall:.1f}")
        if self.harness_errors:
            for e in self.harness_errors:
                self.log("HARNESS-ERROR:", e)
        if self.violations:
            return 1
        if self.harness_errors:
            return 2          # part of the check crashed: what it reports is not a verdict on the property
        # coverage floor: a change that silently turns decided obligations into "unencoded" (the lifted run no longer gets through the
        # code) must not look like a pass.  refs/coverage_floor.json holds, per property and tier, 85 % of the number of obligations
        # that were encoded (discharged + inconclusive) on the tree the checks were developed on (tools/mkfloor.py).
        try:
            floors = json.load(open(os.path.join(ROOT, "refs", "coverage_floor.json")))
            floor = floors.get(self.pid, {}).get(self.tier)
        except (OSError, ValueError):
            floor = None
        encoded = self.verdicts["discharged"] + self.verdicts["inconclusive"]
        if floor is not None and encoded < floor:
            self.log(f"COVERAGE-DROP property={self.pid} encoded={encoded} floor={floor}: the check no longer reaches the code it is meant to decide "
                     f"(unencoded reasons: {dict(self.unencoded_reasons.most_common(3))})")
            return 2
        return 0


def run_replay(path: str, timeout: int = 600):
    """Run a replay file in a fresh process on unpatched code.
    Returns (True/False/None, output): None = crashed."""
    with open(path) as f:
        rec = json.load(f)
    env = dict(os.environ)
    env.pop("SYMPLYPHYSICS_VERIF", None)
    env["PYTHONPATH"] = ROOT + os.pathsep + env.get("PYTHONPATH", "")
    env.setdefault("PYTHONHASHSEED", "0")
    try:
        p = subprocess.run([PY, "-c", rec["script"]], capture_output=True, text=True,
                           timeout=timeout, env=env, cwd="/tmp")
    except subprocess.TimeoutExpired:
        return None, "timeout"
    out = p.stdout + p.stderr
    if p.returncode == 1 and "REPRODUCED" in p.stdout:
        return True, out
    if p.returncode == 0:
        return False, out
    return None, out
