"""Source-form members of the catalogue, obtained through the repo's own docs pipeline
(patch_sympy_evaluate + find_members_and_functions), one module per call."""
from __future__ import annotations

import ast
import os

REPO = "/repo"
DOC_ROOTS = ["symplyphysics/laws", "symplyphysics/definitions", "symplyphysics/conditions"]


def source_files():
    out = []
    for root in DOC_ROOTS:
        for path, dirs, files in os.walk(os.path.join(REPO, root)):
            dirs[:] = sorted(d for d in dirs if not d.startswith("_"))
            for f in sorted(files):
                if f.endswith(".py") and not f.startswith("__"):
                    out.append(os.path.relpath(os.path.join(path, f), REPO))
    return out


def members_of(relpath):
    """(members, functions) of one law file in documentation (source) form; restores SymPy's evaluate flag afterwards"""
    from sympy.core.parameters import global_parameters
    from symplyphysics.docs.patch import patch_sympy_evaluate
    from symplyphysics.docs.parse import find_members_and_functions
    with open(os.path.join(REPO, relpath), "r", encoding="utf-8") as f:
        src = f.read()
    tree = ast.parse(src)
    if ast.get_docstring(tree) is None:
        return None
    tree = patch_sympy_evaluate(tree)
    before = global_parameters.evaluate
    try:
        return find_members_and_functions(tree)
    finally:
        after = global_parameters.evaluate
        global_parameters.evaluate = True
        members_of.last_flag = (before, after)
