"""Source-form members of the catalogue, obtained through the repo's own docs pipeline
(patch_sympy_evaluate + find_members_and_functions), one module per call."""
from __future__ import annotations

import ast
import os

REPO = os.environ.get("VERIF_REPO", "/repo")        # scratch trees for seeded-change experiments only; registered commands never set it
DOC_ROOTS = ["symplyphysics/laws", "symplyphysics/definitions", "symplyphysics/conditions"]


def source_files():
    out = []
    for root in DOC_ROOTS:
        for path, dirs, files in os.walk(os.path.join(REPO, root)):
            dirs[:] = sorted(d for d in dirs if not d.startswith("_"))
            for f in sorted(files):
                if f.endswith(".py") and not f.startswith("__"):
                    out.append(os.path.relpath(os.path.join(path, f), REPO))
    return out


def members_of(relpath):
    """(members, functions) of one law file in documentation (source) form; restores SymPy's evaluate flag afterwards"""
    from sympy.core.parameters import global_parameters
    from symplyphysics.docs.patch import patch_sympy_evaluate
    from symplyphysics.docs.parse import find_members_and_functions
    with open(os.path.join(REPO, relpath), "r", encoding="utf-8") as f:
        src = f.read()
    tree = ast.parse(src)
    if ast.get_docstring(tree) is None:
        return None
    tree = patch_sympy_evaluate(tree)
    before = global_parameters.evaluate
    try:
        return find_members_and_functions(tree)
    finally:
        after = global_parameters.evaluate
        global_parameters.evaluate = True
        members_of.last_flag = (before, after)


def all_documented_sources():
    """every source the generator walks for generate_laws_docs("symplyphysics", out, ["core"]): modules AND package __init__ files"""
    out = []
    top = os.path.join(REPO, "symplyphysics")
    for path, dirs, files in os.walk(top):
        rel = os.path.relpath(path, REPO)
        name = os.path.basename(path)
        if name.startswith((".", "_")) or rel == "symplyphysics/core" or rel.startswith("symplyphysics/core/"):
            dirs[:] = []
            continue
        dirs[:] = sorted(dirs)
        for f in sorted(files):
            if f.endswith(".py") and (not f.startswith("__") or f == "__init__.py"):
                out.append(os.path.join(rel, f))
    return out


def has_title(relpath):
    from symplyphysics.docs.parse import find_title_and_description
    with open(os.path.join(REPO, relpath), "r", encoding="utf-8") as f:
        doc = ast.get_docstring(ast.parse(f.read()))
    return doc is not None and find_title_and_description(doc) is not None


def has_title_independent(relpath):
    """documented module, read without the repo's docstring parser: the module docstring has a non-empty line followed by a line made
    only of '=' or only of '-' characters (an rST title underline of any length)"""
    with open(os.path.join(REPO, relpath), "r", encoding="utf-8") as f:
        doc = ast.get_docstring(ast.parse(f.read()))
    if not doc:
        return False
    ls = doc.splitlines()
    for i in range(1, len(ls)):
        t = ls[i].strip()
        if t and (set(t) == {"="} or set(t) == {"-"}) and ls[i - 1].strip():
            return True
    return False
