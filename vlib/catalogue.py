"""Catalogue loader: modules under symplyphysics/{laws,definitions,conditions}."""
from __future__ import annotations

import importlib
import inspect
import os
import pkgutil

import sympy as sp

PKGS = ["symplyphysics.laws", "symplyphysics.definitions", "symplyphysics.conditions"]


def module_names():
    out = []
    for pk in PKGS:
        p = importlib.import_module(pk)
        for m in pkgutil.walk_packages(p.__path__, pk + "."):
            if not m.ispkg:
                out.append(m.name)
    return sorted(out)


def load(name):
    return importlib.import_module(name)


def decorator_info(fn):
    """Walk the functools.wraps chain of a decorated function; returns
    dict(inputs={param: spec}, output=spec|None, output_same=param|None, inner=function)."""
    info = {"inputs": {}, "output": None, "output_same": None, "inner": fn, "has_output": False}
    cur = fn
    seen = 0
    while hasattr(cur, "__wrapped__") and seen < 10:
        seen += 1
        code = getattr(cur, "__code__", None)
        if code is not None and cur.__closure__:
            fv = dict(zip(code.co_freevars, [c.cell_contents for c in cur.__closure__]))
            if "decorator_kwargs" in fv:
                info["inputs"].update(fv["decorator_kwargs"])
            if "expected_unit" in fv:
                info["output"] = fv["expected_unit"]
                info["has_output"] = True
            if "param_name" in fv and "expected_unit" not in fv:
                info["output_same"] = fv["param_name"]
        cur = cur.__wrapped__
    info["inner"] = cur
    return info


def public_functions(mod):
    out = []
    for n, o in vars(mod).items():
        if n.startswith("_") or not inspect.isfunction(o):
            continue
        if getattr(o, "__module__", None) != mod.__name__:
            continue
        out.append((n, o))
    return out


def is_relational(o):
    return isinstance(o, sp.core.relational.Relational)


def public_equations(mod):
    """(name, equation) for every public Relational / list of Relational attribute defined by the module"""
    out = []
    for n, o in vars(mod).items():
        if n.startswith("_"):
            continue
        if is_relational(o):
            out.append((n, o))
        elif isinstance(o, (list, tuple)) and o and all(is_relational(x) for x in o):
            for i, x in enumerate(o):
                out.append((f"{n}[{i}]", x))
    return out
