"""Component semantics in R^3 of the coordinate-free vector expressions of
symplyphysics.core.experimental.vectors (the oracle of C14 and C16).

Written from the textbook definitions, NOT from the library's rewrite rules:
  value(VectorSymbol)   = three free Reals
  value(f(t))           = three free Reals per distinct application
  value(d f(t)/dt)      = three more free Reals (1-jet)
  cross, dot, mixed     = component formulas;  norm = y >= 0 with y^2 = v.v
"""
from __future__ import annotations

import sympy as sp
import z3

from vlib.s2smt import Enc, Unencodable


def cross3(u, v):
    return (u[1] * v[2] - u[2] * v[1], u[2] * v[0] - u[0] * v[2], u[0] * v[1] - u[1] * v[0])


def dot3(u, v):
    return u[0] * v[0] + u[1] * v[1] + u[2] * v[2]


ZERO3 = (z3.RealVal(0), z3.RealVal(0), z3.RealVal(0))


class VecEnc(Enc):

    def __init__(self, **kw):
        super().__init__(**kw)
        from symplyphysics.core.experimental import vectors as V
        self.V = V
        self.vecvars = {}
        self.norms = []
        self.extra_handlers.append(VecEnc._scalar_handler)

    def vec3(self, key, stem):
        if key not in self.vecvars:
            n = len(self.vecvars)
            self.vecvars[key] = tuple(z3.Real(f"{stem}_{c}#{n}") for c in "xyz")
        return self.vecvars[key]

    def is_vec(self, e):
        V = self.V
        if isinstance(e, V.VectorExpr):
            return True
        if isinstance(e, sp.Add):
            return any(self.is_vec(a) for a in e.args)
        if isinstance(e, sp.Mul):
            return any(self.is_vec(a) for a in e.args)
        return False

    def vec(self, e):
        """value of a vector-valued expression: 3 z3 terms"""
        V = self.V
        e = sp.sympify(e)
        if e == 0:
            return ZERO3
        if isinstance(e, V.VectorSymbol):
            return self.vec3(("vs", id(e)), e.display_name)
        if isinstance(e, V.VectorCross):
            return cross3(self.vec(e.args[0]), self.vec(e.args[1]))
        if isinstance(e, V.VectorDerivative) or (isinstance(e, sp.Derivative) and self.is_vec(e.expr)):
            inner = e.expr
            if isinstance(inner, V.AppliedVectorFunction):
                vc = tuple(sorted((str(v), int(n)) for v, n in e.variable_count))      # partial derivatives commute: one variable per mixed partial
                return self.vec3(("vd", str(inner.func.name), inner.args, vc), f"D{inner.func.display_name}")
            raise Unencodable("VectorDerivative of compound expression")
        if isinstance(e, V.AppliedVectorFunction):
            return self.vec3(("vf", str(e.func.name), e.args), str(e.func.display_name))
        if isinstance(e, sp.Add):
            parts = [self.vec(a) for a in e.args]
            return tuple(z3.Sum([p[i] for p in parts]) for i in range(3))
        if isinstance(e, sp.Mul):
            vecs = [a for a in e.args if self.is_vec(a)]
            if len(vecs) != 1:
                raise Unencodable(f"Mul with {len(vecs)} vector factors")
            sc = self.tr(sp.Mul(*[a for a in e.args if a is not vecs[0]]))
            v = self.vec(vecs[0])
            return tuple(sc * c for c in v)
        raise Unencodable(f"vector node {type(e).__name__}")

    def norm_of(self, v3):
        y = self.fresh("norm")
        self.side += [y >= 0, y * y == dot3(v3, v3)]
        self.norms.append((y, v3))
        return y

    @staticmethod
    def _scalar_handler(self, e):
        V = self.V
        if isinstance(e, V.VectorDot):
            return dot3(self.vec(e.args[0]), self.vec(e.args[1]))
        if isinstance(e, V.VectorMixedProduct):
            a, b, c = (self.vec(x) for x in e.args)
            return dot3(a, cross3(b, c))
        if isinstance(e, V.VectorNorm):
            key = ("norm", e.args[0])
            if key not in self.cache:
                self.cache[key] = self.norm_of(self.vec(e.args[0]))
            return self.cache[key]
        if isinstance(e, V.VectorExpr):
            raise Unencodable("vector in scalar position")
        return None


# ----------------------------------------------------------------------
# concrete evaluator (used by replays: ordinary numbers, no solver)
class NumVec:

    def __init__(self, vec_assign, scal_assign=None, fn_assign=None):
        from symplyphysics.core.experimental import vectors as V
        self.V = V
        self.va = vec_assign      # id(VectorSymbol) -> (x, y, z)
        self.sa = scal_assign or {}
        self.fa = fn_assign or {}  # ("vf"/"vd", func name) -> (x, y, z)

    def is_vec(self, e):
        V = self.V
        if isinstance(e, V.VectorExpr):
            return True
        if isinstance(e, (sp.Add, sp.Mul)):
            return any(self.is_vec(a) for a in e.args)
        return False

    def vec(self, e):
        V = self.V
        e = sp.sympify(e)
        if e == 0:
            return (sp.S.Zero,) * 3
        if isinstance(e, V.VectorSymbol):
            return tuple(sp.sympify(x) for x in self.va[id(e)])
        if isinstance(e, V.VectorCross):
            return cross3(self.vec(e.args[0]), self.vec(e.args[1]))
        if isinstance(e, sp.Derivative) and isinstance(e.expr, V.AppliedVectorFunction):
            order = sum(int(n) for _, n in e.variable_count)
            key = ("vd", str(e.expr.func.name), order)        # higher derivatives have their own assignment when one is given
            mixed = ("vd", str(e.expr.func.name), tuple(sorted((str(v), int(n)) for v, n in e.variable_count)))
            if mixed in self.fa:                               # ... and so do mixed partials of functions of several arguments
                key = mixed
            return tuple(sp.sympify(x) for x in self.fa[key if key in self.fa else ("vd", str(e.expr.func.name))])
        if isinstance(e, V.AppliedVectorFunction):
            return tuple(sp.sympify(x) for x in self.fa[("vf", str(e.func.name))])
        if isinstance(e, sp.Add):
            parts = [self.vec(a) for a in e.args]
            return tuple(sum(p[i] for p in parts) for i in range(3))
        if isinstance(e, sp.Mul):
            vecs = [a for a in e.args if self.is_vec(a)]
            assert len(vecs) == 1, e
            sc = self.scal(sp.Mul(*[a for a in e.args if a is not vecs[0]]))
            return tuple(sc * c for c in self.vec(vecs[0]))
        raise ValueError(f"vector node {type(e).__name__}")

    def scal(self, e):
        V = self.V
        e = sp.sympify(e)
        if isinstance(e, V.VectorDot):
            return dot3(self.vec(e.args[0]), self.vec(e.args[1]))
        if isinstance(e, V.VectorMixedProduct):
            a, b, c = (self.vec(x) for x in e.args)
            return dot3(a, cross3(b, c))
        if isinstance(e, V.VectorNorm):
            v = self.vec(e.args[0])
            return sp.sqrt(dot3(v, v))
        if e.is_Number:
            return e
        if isinstance(e, sp.Symbol):
            return sp.sympify(self.sa[e.name] if e.name in self.sa else self.sa[getattr(e, "display_name", e.name)])
        if isinstance(e, sp.core.function.AppliedUndef):
            return sp.sympify(self.fa[("sf", str(e.func))])
        if isinstance(e, sp.Derivative) and isinstance(e.expr, sp.core.function.AppliedUndef):
            return sp.sympify(self.fa[("sd", str(e.expr.func))])
        if isinstance(e, (sp.Add, sp.Mul, sp.Pow, sp.Abs)) or (isinstance(e, sp.Function) and not isinstance(e, sp.core.function.AppliedUndef)):
            return e.func(*[self.scal(a) for a in e.args])          # elementary functions (log, exp, cos ...) of scalar arguments
        if e in (sp.pi, sp.E, sp.I):
            return e
        raise ValueError(f"scalar node {type(e).__name__}")
