"""Fork-based parallel map returning picklable per-item results.

Every item has a HARD wall-clock limit enforced from outside the worker: z3's own `timeout` is cooperative and some of its routines
(nlsat's polynomial gcd / factorisation) do not look at it, and SIGALRM handlers only run once the interpreter is back from the C call.
A worker that sits on one item for longer than the limit is killed, the item is reported as {"error": "timeout ..."} (which every
check records as inconclusive or as a harness error, never as discharged), and a fresh worker carries on with the rest.
"""
from __future__ import annotations

import multiprocessing as mp
import os
import signal
import threading
import time
import traceback


class ItemTimeout(BaseException):
    pass


def _alarm(signum, frame):
    raise ItemTimeout()


def with_timeout(fn, secs, *a, **kw):
    old = signal.signal(signal.SIGALRM, _alarm)
    signal.alarm(int(secs))
    try:
        return fn(*a, **kw)
    finally:
        signal.alarm(0)
        signal.signal(signal.SIGALRM, old)


def hard_limit_s():
    """per-item hard limit in seconds: VERIF_HARD_ITEM_S, else 600 (quick) / 2400 (thorough)"""
    v = os.environ.get("VERIF_HARD_ITEM_S")
    if v:
        return float(v)
    return 2400.0 if os.environ.get("VERIF_TIER_RUNNING") == "thorough" else 600.0


_FN = None
_ITEMS = None


def _one(it):
    try:
        return _FN(it)
    except ItemTimeout:
        return {"item": repr(it)[:200], "error": "timeout"}
    except Exception:
        return {"item": repr(it)[:200], "error": traceback.format_exc()[-1200:]}


def _call(chunk):
    return [_one(it) for it in chunk]


def _worker(wid, conn, init):
    try:
        if init:
            init()
        while True:
            idxs = conn.recv()
            if idxs is None:
                return
            for i in idxs:
                conn.send(("start", wid, i, None))  # Pipe.send is synchronous: nothing is lost if the worker dies later
                conn.send(("done", wid, i, _one(_ITEMS[i])))
            conn.send(("idle", wid, None, None))
    except (EOFError, KeyboardInterrupt):
        return


def pmap(fn, items, procs=None, chunk=None, init=None, hard_s=None):
    """fn(item) -> picklable; runs in forked workers. Results in order."""
    global _FN, _ITEMS
    items = list(items)
    procs = procs or min(16, os.cpu_count() or 4)
    if len(items) == 0:
        return []
    _FN = fn
    if procs <= 1 or len(items) == 1:
        if init:
            init()
        return _call(items)
    _ITEMS = items
    hard_s = hard_s or hard_limit_s()
    chunk = chunk or max(1, min(50, len(items) // (procs * 4) or 1))
    pending = [list(range(i, min(i + chunk, len(items)))) for i in range(0, len(items), chunk)]
    pending.reverse()  # pop() takes the first chunk
    ctx = mp.get_context("fork")
    results = [None] * len(items)
    done = 0
    workers = {}  # wid -> dict(proc, conn, assigned (list of idx not yet done), current, t0)
    next_wid = [0]

    def spawn():
        wid = next_wid[0]
        next_wid[0] += 1
        pc, cc = ctx.Pipe()
        p = ctx.Process(target=_worker, args=(wid, cc, init), daemon=True)
        p.start()
        cc.close()
        workers[wid] = {"proc": p, "conn": pc, "assigned": [], "current": None, "t0": None}
        return wid

    def feed(wid):
        w = workers[wid]
        if pending:
            w["assigned"] = list(pending.pop())
            w["current"], w["t0"] = None, time.time()
            w["conn"].send(w["assigned"])
        else:
            try:
                w["conn"].send(None)
            except (BrokenPipeError, OSError):
                pass
            w["assigned"] = []

    def retire(wid, why):
        """kill the worker; the item it was on gets `why`, the rest of its chunk goes back to the pending list"""
        nonlocal done
        w = workers.pop(wid)
        try:
            w["proc"].kill()
        except Exception:
            pass
        w["proc"].join(5)
        rest = list(w["assigned"])
        cur = w["current"]
        if cur is None and rest:
            cur = rest[0]
        if cur is not None and results[cur] is None:
            results[cur] = {"item": repr(items[cur])[:200], "error": why}
            done += 1
        rest = [i for i in rest if i != cur and results[i] is None]
        if rest:
            pending.append(rest)

    def handle(msg):
        nonlocal done
        kind, wid, i, r = msg
        if wid not in workers:
            if kind == "done" and results[i] is not None and isinstance(results[i], dict) and "died" in str(results[i].get("error", "")):
                results[i] = r  # the answer of a worker already retired arrived late: keep the real answer
            return
        w = workers[wid]
        if kind == "start":
            w["current"], w["t0"] = i, time.time()
        elif kind == "done":
            if results[i] is None:
                results[i] = r
                done += 1
            if i in w["assigned"]:
                w["assigned"].remove(i)
            w["current"], w["t0"] = None, time.time()
        elif kind == "idle":
            feed(wid)

    def drain(block_s):
        from multiprocessing.connection import wait
        while True:
            conns = {w["conn"]: wid for wid, w in workers.items() if not w.get("eof")}
            ready = wait(list(conns), timeout=block_s) if conns else []
            if not ready:
                return
            for c in ready:
                try:
                    handle(c.recv())
                except (EOFError, OSError):
                    wid = conns[c]
                    if wid in workers and not workers[wid]["assigned"]:
                        workers.pop(wid)["proc"].join(1)
                    elif wid in workers:
                        workers[wid]["eof"] = True
            block_s = 0

    for _ in range(min(procs, len(pending))):
        feed(spawn())
    while done < len(items):
        drain(1.0)
        now = time.time()
        for wid in list(workers):
            w = workers[wid]
            if not w["assigned"]:
                continue
            if w.get("eof") or not w["proc"].is_alive():
                retire(wid, "worker process died (killed or crashed) while on this item")
            elif w["t0"] is not None and now - w["t0"] > hard_s:
                cur_ = w["current"] if w["current"] is not None else (w["assigned"][0] if w["assigned"] else None)
                what_ = repr(items[cur_])[:140] if cur_ is not None else "?"
                retire(wid, f"timeout: hard limit of {hard_s:.0f} s per item reached (the solver did not return); worker killed; item {what_}")
            else:
                continue
            if pending:
                feed(spawn())
        if not any(w["assigned"] for w in workers.values()) and pending:
            feed(spawn())
    for wid in list(workers):
        w = workers.pop(wid)
        try:
            w["conn"].send(None)
        except Exception:
            pass
        w["proc"].join(2)
        if w["proc"].is_alive():
            w["proc"].kill()
    return results


_WATCH = {"t0": None, "what": ""}


def main_watchdog(limit_s=None):
    """for code that queries the solver in the MAIN process: a daemon thread that ends the run with exit status 2 (harness error, never
    'held') if one guarded section lasts longer than the hard limit.  Use `with guarded("what"):` around solver calls."""
    limit_s = limit_s or 3 * hard_limit_s()

    def loop():
        while True:
            time.sleep(5)
            t0 = _WATCH["t0"]
            if t0 is not None and time.time() - t0 > limit_s:
                print(f"HARNESS-ERROR: {_WATCH['what']}: no return from the solver within {limit_s:.0f} s (hard limit); giving up", flush=True)
                os._exit(2)
    threading.Thread(target=loop, daemon=True).start()


class guarded:

    def __init__(self, what):
        self.what = what

    def __enter__(self):
        _WATCH["t0"], _WATCH["what"] = time.time(), self.what

    def __exit__(self, *a):
        _WATCH["t0"] = None
        return False
