"""Fork-based parallel map returning picklable per-item results."""
from __future__ import annotations

import multiprocessing as mp
import os
import signal
import traceback


class ItemTimeout(BaseException):
    pass


def _alarm(signum, frame):
    raise ItemTimeout()


def with_timeout(fn, secs, *a, **kw):
    old = signal.signal(signal.SIGALRM, _alarm)
    signal.alarm(int(secs))
    try:
        return fn(*a, **kw)
    finally:
        signal.alarm(0)
        signal.signal(signal.SIGALRM, old)


_FN = None


def _call(chunk):
    out = []
    for it in chunk:
        try:
            out.append(_FN(it))
        except ItemTimeout:
            out.append({"item": repr(it)[:200], "error": "timeout"})
        except Exception:
            out.append({"item": repr(it)[:200], "error": traceback.format_exc()[-1200:]})
    return out


def pmap(fn, items, procs=None, chunk=None, init=None):
    """fn(item) -> picklable; runs in forked workers. Results in order."""
    global _FN
    items = list(items)
    procs = procs or min(16, os.cpu_count() or 4)
    if len(items) == 0:
        return []
    _FN = fn
    if procs <= 1 or len(items) == 1:
        if init:
            init()
        return _call(items)
    chunk = chunk or max(1, min(50, len(items) // (procs * 4) or 1))
    chunks = [items[i:i + chunk] for i in range(0, len(items), chunk)]
    ctx = mp.get_context("fork")
    with ctx.Pool(procs, initializer=init) as pool:
        res = pool.map(_call, chunks, chunksize=1)
    return [r for ch in res for r in ch]
