"""Independent specification of quantity arithmetic (C05/C06/C07), written from
the property statements, NOT from collect_quantity.py / collect_expression.py.

spec(expr) -> Sem(val, dim, wf) where
  val : sympy expression over verification scalars (value in the scale-factor arithmetic)
  dim : list of 8 z3 Reals (dimensional product of the parts)
  wf  : z3 Bool, "construction must succeed" (no inequivalent sum/min/max terms, dimensionless exponents and
        function arguments, no free symbol / unevaluated derivative); a term whose value is 0 is compatible with anything
"""
from __future__ import annotations

import sympy as sp
import z3
from sympy.functions.elementary.miscellaneous import MinMaxBase
from sympy.physics.units import Quantity as SymQuantity, Dimension
from sympy.physics.units.prefixes import Prefix

from vlib import lift
from vlib.lift import S, to_vec, vec_eq, vec_zero, SLOTS


class Sem:

    def __init__(self, val, dim, wf):
        self.val = val
        self.dim = dim
        self.wf = wf

    def is_any(self):
        v = sp.sympify(self.val)
        if v in (sp.S.Zero, sp.oo, -sp.oo, sp.nan, sp.zoo):
            return z3.BoolVal(True)
        if v.is_number:
            return z3.BoolVal(bool(v == 0))
        return S().z(v) == 0


ZERO = None


def zero_vec():
    return [z3.RealVal(0)] * len(SLOTS)


def pick_dim(terms):
    """dimension of the first term whose value is not zero (all agree when well-formed)"""
    d = terms[-1].dim
    for t in reversed(terms[:-1]):
        a = t.is_any()
        d = [z3.If(a, x, y) for x, y in zip(d, t.dim)]
    return d


def pairwise_compatible(terms):
    cons = []
    for i in range(len(terms)):
        for j in range(i + 1, len(terms)):
            cons.append(z3.Or(terms[i].is_any(), terms[j].is_any(), vec_eq(terms[i].dim, terms[j].dim)))
    return z3.And(cons) if cons else z3.BoolVal(True)


def spec(e, leaf=None):
    """leaf: optional callable(expr) -> Sem | None for harness-specific leaves (dimensioned symbols in C06)"""
    e = sp.sympify(e)
    if leaf is not None:
        r = leaf(e)
        if r is not None:
            return r
    if isinstance(e, SymQuantity):
        return Sem(e.scale_factor, to_vec(e.dimension), z3.BoolVal(True))
    if isinstance(e, Prefix):
        return Sem(e.scale_factor, zero_vec(), z3.BoolVal(True))
    if isinstance(e, sp.Derivative):
        return Sem(sp.S.One, zero_vec(), z3.BoolVal(False))
    if isinstance(e, sp.Mul):
        ts = [spec(a, leaf) for a in e.args]
        d = zero_vec()
        for t in ts:
            d = [x + y for x, y in zip(d, t.dim)]
        return Sem(sp.Mul(*[t.val for t in ts]), d, z3.And([t.wf for t in ts]))
    if isinstance(e, sp.Pow):
        b, x = spec(e.base, leaf), spec(e.exp, leaf)
        xv = S().z(x.val)
        return Sem(sp.Pow(b.val, x.val), [c * xv for c in b.dim],
                   z3.And(b.wf, x.wf, z3.Or(x.is_any(), vec_zero(x.dim))))
    if isinstance(e, sp.Add):
        ts = [spec(a, leaf) for a in e.args]
        return Sem(sp.Add(*[t.val for t in ts]), pick_dim(ts), z3.And([t.wf for t in ts] + [pairwise_compatible(ts)]))
    if isinstance(e, sp.Abs):
        t = spec(e.args[0], leaf)
        return Sem(sp.Abs(t.val), t.dim, t.wf)
    if isinstance(e, MinMaxBase):
        ts = [spec(a, leaf) for a in e.args]
        return Sem(type(e)(*[t.val for t in ts]), pick_dim(ts), z3.And([t.wf for t in ts] + [pairwise_compatible(ts)]))
    if isinstance(e, sp.Function):
        ts = [spec(a, leaf) for a in e.args]
        wf = z3.And([t.wf for t in ts] + [z3.Or(t.is_any(), vec_zero(t.dim)) for t in ts])
        return Sem(e.func(*[t.val for t in ts]), zero_vec(), wf)
    if isinstance(e, sp.Symbol) and not isinstance(e, lift.VS):
        return Sem(e, zero_vec(), z3.BoolVal(False))      # free symbol: must be refused
    if isinstance(e, lift.VS) or e.is_number:
        return Sem(e, zero_vec(), z3.BoolVal(True))
    raise lift.LiftUnsupported(f"spec: node {type(e).__name__}")
