"""Independent specification of quantity arithmetic (C05/C06/C07), written from
the property statements, NOT from collect_quantity.py / collect_expression.py.

spec(expr) -> Sem(val, dim, wf) where
  val : sympy expression over verification scalars (value in the scale-factor arithmetic)
  dim : list of 8 z3 Reals (dimensional product of the parts)
  wf  : z3 Bool, "construction must succeed" (no inequivalent sum/min/max terms, dimensionless exponents and
        function arguments, no free symbol / unevaluated derivative); a term whose value is 0 is compatible with anything
"""
from __future__ import annotations

import sympy as sp
import z3
from sympy.functions.elementary.miscellaneous import MinMaxBase
from sympy.physics.units import Quantity as SymQuantity, Dimension
from sympy.physics.units.prefixes import Prefix

from vlib import lift
from vlib.lift import S, to_vec, vec_eq, vec_zero, SLOTS


class Sem:

    def __init__(self, val, dim, wf):
        self.val = val
        self.dim = dim
        self.wf = wf

    def is_any(self):
        v = sp.sympify(self.val)
        if v in (sp.S.Zero, sp.oo, -sp.oo, sp.nan, sp.zoo):
            return z3.BoolVal(True)
        if v.is_number:
            return z3.BoolVal(bool(v == 0))
        return S().z(v) == 0


ZERO = None


def zero_vec():
    return [z3.RealVal(0)] * len(SLOTS)


def pick_dim(terms):
    """dimension of the first term whose value is not zero (all agree when well-formed)"""
    d = terms[-1].dim
    for t in reversed(terms[:-1]):
        a = t.is_any()
        d = [z3.If(a, x, y) for x, y in zip(d, t.dim)]
    return d


def pairwise_compatible(terms):
    cons = []
    for i in range(len(terms)):
        for j in range(i + 1, len(terms)):
            cons.append(z3.Or(terms[i].is_any(), terms[j].is_any(), vec_eq(terms[i].dim, terms[j].dim)))
    return z3.And(cons) if cons else z3.BoolVal(True)


def spec(e, leaf=None):
    """leaf: optional callable(expr) -> Sem | None for harness-specific leaves (dimensioned symbols in C06)"""
    e = sp.sympify(e)
    if leaf is not None:
        r = leaf(e)
        if r is not None:
            return r
    if isinstance(e, SymQuantity):
        return Sem(e.scale_factor, to_vec(e.dimension), z3.BoolVal(True))
    if isinstance(e, Prefix):
        return Sem(e.scale_factor, zero_vec(), z3.BoolVal(True))
    if isinstance(e, sp.Derivative):
        return Sem(sp.S.One, zero_vec(), z3.BoolVal(False))
    if isinstance(e, sp.Mul):
        ts = [spec(a, leaf) for a in e.args]
        d = zero_vec()
        for t in ts:
            d = [x + y for x, y in zip(d, t.dim)]
        return Sem(sp.Mul(*[t.val for t in ts]), d, z3.And([t.wf for t in ts]))
    if isinstance(e, sp.Pow):
        b, x = spec(e.base, leaf), spec(e.exp, leaf)
        xv = S().z(x.val)
        return Sem(sp.Pow(b.val, x.val), [c * xv for c in b.dim],
                   z3.And(b.wf, x.wf, z3.Or(x.is_any(), vec_zero(x.dim))))
    if isinstance(e, sp.Add):
        ts = [spec(a, leaf) for a in e.args]
        return Sem(sp.Add(*[t.val for t in ts]), pick_dim(ts), z3.And([t.wf for t in ts] + [pairwise_compatible(ts)]))
    if isinstance(e, sp.Abs):
        t = spec(e.args[0], leaf)
        return Sem(sp.Abs(t.val), t.dim, t.wf)
    if isinstance(e, MinMaxBase):
        ts = [spec(a, leaf) for a in e.args]
        return Sem(type(e)(*[t.val for t in ts]), pick_dim(ts), z3.And([t.wf for t in ts] + [pairwise_compatible(ts)]))
    if isinstance(e, sp.Function):
        ts = [spec(a, leaf) for a in e.args]
        wf = z3.And([t.wf for t in ts] + [z3.Or(t.is_any(), vec_zero(t.dim)) for t in ts])
        return Sem(e.func(*[t.val for t in ts]), zero_vec(), wf)
    if isinstance(e, sp.Symbol) and not isinstance(e, lift.VS):
        return Sem(e, zero_vec(), z3.BoolVal(False))      # free symbol: must be refused
    if isinstance(e, lift.VS) or e.is_number:
        return Sem(e, zero_vec(), z3.BoolVal(True))
    raise lift.LiftUnsupported(f"spec: node {type(e).__name__}")


# ----------------------------------------------------------------------
# inference mode (C06): leaves may be dimensioned symbols / functions whose values are unknown
ISPEC_ASSUME = []


class ISem:

    def __init__(self, dim, wf, anyf):
        self.dim = dim
        self.wf = wf
        self.anyf = anyf     # z3 Bool: the term is KNOWN to be zero-valued (numeric zero, zero quantity, product containing one)


def _ipick(ts):
    d = ts[-1].dim
    for t in reversed(ts[:-1]):
        d = [z3.If(t.anyf, x, y) for x, y in zip(d, t.dim)]
    return d


def _icompat(ts):
    cons = []
    for i in range(len(ts)):
        for j in range(i + 1, len(ts)):
            cons.append(z3.Or(ts[i].anyf, ts[j].anyf, vec_eq(ts[i].dim, ts[j].dim)))
    return z3.And(cons) if cons else z3.BoolVal(True)


def pure_number(e):
    return all(isinstance(a, lift.VS) for a in e.free_symbols) and not e.atoms(SymQuantity)


def ispec(e, nested=False):
    """dimension / well-formedness of symbolic inference, from the statement of C06"""
    e = sp.sympify(e)
    T, F = z3.BoolVal(True), z3.BoolVal(False)
    if isinstance(e, SymQuantity):
        return ISem(to_vec(e.dimension), T, S().z(e.scale_factor) == 0)
    if e.free_symbols and pure_number(e):
        return ISem(zero_vec(), T, S().z(e) == 0)                   # a plain number (symbolic value): zero iff its value is zero
    if hasattr(e, "dimension") and isinstance(getattr(e, "dimension"), Dimension):
        return ISem(to_vec(e.dimension), T, F)                      # declared symbol
    if isinstance(e, sp.Derivative):
        f = e.expr
        d = to_vec(getattr(f.func, "dimension", sp.physics.units.Dimension(1)))
        for v, n in e.variable_count:
            vd = ispec(v, True).dim
            d = [a - int(n) * b for a, b in zip(d, vd)]
        return ISem(d, T, F)
    if isinstance(e, sp.Mul):
        ts = [ispec(a, True) for a in e.args]
        d = zero_vec()
        for t in ts:
            d = [x + y for x, y in zip(d, t.dim)]
        return ISem(d, z3.And([t.wf for t in ts]), z3.Or([t.anyf for t in ts]))
    if isinstance(e, sp.Pow):
        b, x = ispec(e.base, True), ispec(e.exp, True)
        xv = S().z(_value(e.exp))
        # outside the claim: a power whose base is a known zero (its value is zero but it is not a literal zero term)
        ISPEC_ASSUME.append(z3.Not(b.anyf))
        # outside the claim: an exponent that is a known zero but carries a dimension (0 m): the statement's zero exception
        # names sums/min/max only, the library treats a zero product as a plain number
        ISPEC_ASSUME.append(z3.Or(z3.Not(x.anyf), vec_zero(x.dim)))
        for q_ in sp.sympify(e.exp).atoms(SymQuantity):
            # ... nor zero-valued dimensional quantities anywhere inside an exponent
            ISPEC_ASSUME.append(z3.Or(S().z(q_.scale_factor) != 0, vec_zero(to_vec(q_.dimension))))
        # the statement excepts zero terms only for sums/min/max: an exponent must be dimensionless, full stop
        return ISem([c * xv for c in b.dim], z3.And(b.wf, x.wf, vec_zero(x.dim)), F)
    if isinstance(e, (sp.Add, MinMaxBase)):
        ts = [ispec(a, True) for a in e.args]
        anyf = z3.And([t.anyf for t in ts])
        if nested and not e.free_symbols - {a for a in e.free_symbols if isinstance(a, lift.VS)}:
            # outside the claim: a nested sum / min / max of numbers and quantities whose VALUE is zero (the statement's zero exception is about
            # terms that are zero; whether an aggregate that merely evaluates to zero counts is not determined by it)
            ISPEC_ASSUME.append(S().z(_value(e)) != 0)
        return ISem(_ipick(ts), z3.And([t.wf for t in ts] + [_icompat(ts)]), anyf)
    if isinstance(e, sp.Abs):
        t = ispec(e.args[0], nested)
        return ISem(t.dim, t.wf, t.anyf)
    if isinstance(e, sp.Function) or isinstance(e, sp.core.function.AppliedUndef):
        ts = [ispec(a, True) for a in e.args]
        d = getattr(e.func, "dimension", None)
        return ISem(to_vec(d) if isinstance(d, Dimension) else zero_vec(), z3.And([t.wf for t in ts]) if ts else T, F)
    if e.is_number:
        return ISem(zero_vec(), T, z3.BoolVal(bool(e == 0) or e in (sp.oo, -sp.oo, sp.nan, sp.zoo)))
    if isinstance(e, lift.VS):
        return ISem(zero_vec(), T, S().z(e) == 0)
    if isinstance(e, sp.Symbol):
        return ISem(zero_vec(), T, F)
    raise lift.LiftUnsupported(f"ispec: node {type(e).__name__}")


def _value(e):
    """value expression with every quantity replaced by its scale factor"""
    e = sp.sympify(e)
    reps = {q: q.scale_factor for q in e.atoms(SymQuantity)}
    return e.xreplace(reps) if reps else e


def quantity_handler(enc, e):
    if isinstance(e, SymQuantity):
        return enc.tr(e.scale_factor)
    return None
