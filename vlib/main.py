"""./vf <Cnn> [--tier quick|thorough] [--seed N]   |   ./vf replay <path>"""
from __future__ import annotations

import argparse
import importlib
import os
import sys
import traceback

from vlib.report import Ctx, run_replay, HarnessError


def main(argv=None):
    ap = argparse.ArgumentParser()
    ap.add_argument("what")
    ap.add_argument("path", nargs="?")
    ap.add_argument("--tier", default=os.environ.get("VERIF_TIER", "quick"))
    ap.add_argument("--seed", type=int, default=int(os.environ.get("VERIF_SEED", "0") or 0))
    a = ap.parse_args(argv)
    if a.what == "replay":
        ok, out = run_replay(a.path)
        print(out)
        if ok:
            print("replay: REPRODUCED")
            return 1
        if ok is None:
            print("replay: crashed")
            return 2
        print("replay: does not reproduce")
        return 0
    pid = a.what.upper()
    tier = "thorough" if a.tier.startswith("t") else "quick"
    os.environ["VERIF_TIER_RUNNING"] = tier
    from vlib import par
    par.main_watchdog()
    mod = importlib.import_module(f"checks.{pid.lower()}")
    ctx = Ctx(pid, tier, a.seed, level=getattr(mod, "LEVEL", "other"))
    try:
        mod.run(ctx)
    except HarnessError as e:
        ctx.harness_errors.append(str(e))
        ctx.finish()
        print("HARNESS-ERROR:", e)
        return 2
    except Exception:
        traceback.print_exc()
        ctx.harness_errors.append(traceback.format_exc()[-1500:])
        try:
            ctx.finish()
        except Exception:
            pass
        return 2
    return ctx.finish()


if __name__ == "__main__":
    sys.exit(main())
