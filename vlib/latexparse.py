"""Independent reader of the LaTeX rendering of formulas (oracle of C18), for the subset the printer emits:
\\frac{}{}, \\sqrt{}, \\sqrt[n]{}, ^{}, juxtaposition / \\cdot / \\times as product, \\left( \\right), \\left| \\right|,
\\sin^{2}{\\left(x \\right)}, \\exp{}, \\log_{b} \\left( x \\right), \\operatorname{f}{\\left(..\\right)}, \\min\\left(a, b\\right), numbers, \\pi.
Tokenisation is name-aware on the LaTeX display names of the leaves (longest first)."""
from __future__ import annotations

import re
from fractions import Fraction

import sympy as sp

from vlib.exprparse import ParseError

class Unreadable(ParseError):
    """definitely not readable as mathematics (as opposed to: outside this reader's grammar)"""


class AdjacentNumerals(Unreadable):
    pass


class FunctionWithoutArgument(Unreadable):
    pass


FUNCS = {"sin": sp.sin, "cos": sp.cos, "tan": sp.tan, "cot": sp.cot, "sec": sp.sec, "csc": sp.csc, "sinh": sp.sinh, "cosh": sp.cosh, "tanh": sp.tanh, "coth": sp.coth,
         "exp": sp.exp, "log": sp.log, "ln": sp.log, "asin": sp.asin, "acos": sp.acos, "atan": sp.atan, "arcsin": sp.asin, "arccos": sp.acos, "arctan": sp.atan,
         "min": sp.Min, "max": sp.Max, "acot": sp.acot, "asinh": sp.asinh, "acosh": sp.acosh, "atanh": sp.atanh, "sign": sp.sign, "atan2": sp.atan2}
NUMBER = re.compile(r"\d+\.\d*|\.\d+|\d+")
CMD = re.compile(r"\\[A-Za-z]+|\\.")


def wellformed(s: str):
    """lexical scan: balanced {}, matched \\left/\\right, matched \\begin/\\end. Returns None or a description of the defect."""
    depth = 0
    i = 0
    lr = 0
    envs = []
    while i < len(s):
        if s[i] == "\\":
            m = CMD.match(s, i)
            tok = m.group()
            if tok == "\\left":
                lr += 1
            elif tok == "\\right":
                lr -= 1
                if lr < 0:
                    return "\\right without \\left"
            elif tok in ("\\begin", "\\end"):
                m2 = re.match(r"\{([a-z*]+)\}", s[m.end():])
                if not m2:
                    return f"{tok} without environment name"
                if tok == "\\begin":
                    envs.append(m2.group(1))
                else:
                    if not envs or envs.pop() != m2.group(1):
                        return "mismatched \\end"
            i = m.end()
            continue
        if s[i] == "{":
            depth += 1
        elif s[i] == "}":
            depth -= 1
            if depth < 0:
                return "unbalanced }"
        i += 1
    if depth != 0:
        return "unbalanced {"
    if lr != 0:
        return "unmatched \\left"
    if envs:
        return "unclosed environment"
    return None


def tokenize(s, leaf_names):
    names = sorted((n for n in leaf_names if n), key=len, reverse=True)
    toks = []
    i = 0
    n = len(s)
    while i < n:
        ch = s[i]
        if ch.isspace():
            i += 1
            continue
        matched = None
        for nm in names:
            if s.startswith(nm, i):
                j = i + len(nm)
                if nm[-1].isalpha() and j < n and s[j].isalpha() and (nm.startswith("\\") and "{" not in nm[-2:]) and re.match(r"\\[A-Za-z]+$", nm):
                    continue        # a bare command name must not be a prefix of a longer command
                if nm[-1].isdigit() and j < n and (s[j].isdigit() or s[j] == "."):
                    continue
                if nm[0].isdigit() and toks and toks[-1][0] == "num" and i > 0 and (s[i - 1].isdigit() or s[i - 1] == "."):
                    continue
                matched = nm
                break
        if matched is not None:
            toks.append(("leaf", matched))
            i += len(matched)
            continue
        m = NUMBER.match(s, i)
        if m:
            if toks and toks[-1][0] == "num":
                # two numerals separated only by blanks run together when typeset ("2.5 10" reads 2.510): not a readable product
                raise AdjacentNumerals(f"adjacent numerals '{toks[-1][1]} {m.group()}'")
            toks.append(("num", m.group()))
            i = m.end()
            continue
        if ch == "\\":
            m = CMD.match(s, i)
            tok = m.group()
            if tok in ("\\,", "\\;", "\\:", "\\!", "\\ ", "\\quad", "\\qquad"):
                i = m.end()
                continue
            toks.append(("cmd", tok[1:]))
            i = m.end()
            continue
        if ch in "{}()[]^_+-*/=|,<>!":
            toks.append(("op", ch))
            i += 1
            continue
        if ch.isalpha():
            toks.append(("letter", ch))
            i += 1
            continue
        raise ParseError(f"unexpected character {ch!r} at {i}")
    toks.append(("end", None))
    return toks


class LatexParser:

    def __init__(self, toks, leaf_map):
        self.t = toks
        self.p = 0
        self.leaf = leaf_map

    def peek(self, k=0):
        return self.t[min(self.p + k, len(self.t) - 1)]

    def next(self):
        tok = self.t[self.p]
        self.p += 1
        return tok

    def expect(self, kind, val):
        tok = self.next()
        if tok != (kind, val):
            raise ParseError(f"expected {val}, got {tok}")

    def relation(self):
        l = self.sum()
        tok = self.peek()
        rels = {("op", "="): "=", ("op", "<"): "<", ("op", ">"): ">", ("cmd", "leq"): "<=", ("cmd", "geq"): ">=", ("cmd", "neq"): "!=", ("cmd", "le"): "<=", ("cmd", "ge"): ">="}
        if tok in rels:
            self.next()
            r = self.sum()
            return ("rel", rels[tok], l, r)
        return l

    def at_sum_end(self):
        tok = self.peek()
        return tok[0] == "end" or tok in (("op", "}"), ("op", ")"), ("op", "]"), ("op", "|"), ("op", ","), ("op", "="), ("op", "<"), ("op", ">"), ("cmd", "right"),
                                          ("cmd", "leq"), ("cmd", "geq"), ("cmd", "neq"), ("cmd", "le"), ("cmd", "ge"))

    def sum(self):
        neg = False
        if self.peek() == ("op", "-"):
            self.next()
            neg = True
        elif self.peek() == ("op", "+"):
            self.next()
        l = self.product()
        if neg:
            l = -l
        while True:
            tok = self.peek()
            if tok == ("op", "+"):
                self.next()
                l = l + self.product()
            elif tok == ("op", "-"):
                self.next()
                l = l - self.product()
            else:
                return l

    def starts_factor(self):
        tok = self.peek()
        if tok[0] in ("num", "leaf", "letter"):
            return True
        if tok[0] == "cmd":
            return tok[1] in ("frac", "sqrt", "left", "pi", "operatorname", "mathrm", "text") or tok[1] in FUNCS
        return tok in (("op", "("), ("op", "{"), ("op", "|"))

    def product(self):
        l = self.factor()
        while True:
            tok = self.peek()
            if tok in (("cmd", "cdot"), ("cmd", "times"), ("op", "*")):
                self.next()
                l = l * self.factor()
            elif tok == ("op", "/"):
                self.next()
                l = l / self.factor()
            elif tok == ("cmd", "left") and self.peek(1) == ("op", "|") and self.closing_abs():
                return l
            elif tok == ("op", "|"):
                return l
            elif self.starts_factor():
                l = l * self.factor()
            else:
                return l

    def closing_abs(self):
        return False

    def group(self):
        """{ sum }"""
        self.expect("op", "{")
        e = self.sum()
        self.expect("op", "}")
        return e

    def paren(self):
        """\\left( sum \\right) | ( sum ) ; returns list of comma separated sums"""
        tok = self.next()
        if tok == ("cmd", "left"):
            self.expect("op", "(")
            args = [self.sum()]
            while self.peek() == ("op", ","):
                self.next()
                args.append(self.sum())
            self.expect("cmd", "right")
            self.expect("op", ")")
            return args
        if tok == ("op", "("):
            args = [self.sum()]
            while self.peek() == ("op", ","):
                self.next()
                args.append(self.sum())
            self.expect("op", ")")
            return args
        raise ParseError(f"expected parenthesis, got {tok}")

    def exponent(self):
        self.expect("op", "^")
        if self.peek() == ("op", "{"):
            return self.group()
        tok = self.next()
        if tok[0] == "num":
            if len(tok[1]) > 1:
                # TeX: an unbraced superscript is ONE token; "x^10" typesets x^1 followed by 0
                self.p -= 1
                self.t[self.p] = ("num", tok[1][1:])
                if not tok[1][0].isdigit():
                    raise ParseError(f"bad exponent {tok}")
            return sp.Integer(tok[1][0])
        if tok[0] == "leaf":
            return self.leaf[tok[1]]
        raise ParseError(f"bad exponent {tok}")

    def factor(self):
        b = self.base()
        while self.peek() == ("op", "^"):
            e = self.exponent()
            b = sp.Pow(b, e)
        if self.peek() == ("op", "!"):
            raise ParseError("factorial")
        return b

    def func_args(self):
        # {\left(x \right)} | \left( x \right) | {x}
        if self.peek() == ("op", "{"):
            self.next()
            if self.peek() == ("cmd", "left") and self.peek(1) == ("op", "("):
                args = self.paren()
                self.expect("op", "}")
                return args
            e = self.sum()
            self.expect("op", "}")
            return [e]
        if self.peek() in (("cmd", "left"), ("op", "(")):
            return self.paren()
        nx = self.peek()
        if nx[0] == "end" or (nx[0] == "op" and nx[1] in "+-*/=,)}]^_<>") or nx == ("cmd", "right") or nx[0] == "num":
            # a function name (possibly with its power) followed by an operator, a closing delimiter, a numeral or nothing
            raise FunctionWithoutArgument(f"function name followed by {nx[1] if nx[0] != 'end' else 'the end of the formula'!r} instead of its argument")
        raise ParseError(f"function without bracketed argument at {nx}")

    def base(self):
        tok = self.next()
        if tok[0] == "num":
            if "." in tok[1]:
                fr = Fraction(float(tok[1]))
                return sp.Rational(fr.numerator, fr.denominator)
            return sp.Integer(tok[1])
        if tok[0] == "leaf":
            return self.leaf[tok[1]]
        if tok == ("letter", "e"):
            return sp.E
        if tok == ("op", "{"):
            self.p -= 1
            return self.group()
        if tok in (("op", "("),):
            self.p -= 1
            a = self.paren()
            if len(a) != 1:
                raise ParseError("tuple")
            return a[0]
        if tok == ("op", "|"):
            e = self.sum()
            self.expect("op", "|")
            return sp.Abs(e)
        if tok[0] == "cmd":
            c = tok[1]
            if c == "left":
                nx = self.peek()
                if nx == ("op", "("):
                    self.p -= 1
                    a = self.paren()
                    if len(a) != 1:
                        raise ParseError("tuple")
                    return a[0]
                if nx == ("op", "|"):
                    self.next()
                    if self.peek() == ("op", "{"):
                        e = self.group()
                    else:
                        e = self.sum()
                    self.expect("cmd", "right")
                    self.expect("op", "|")
                    return sp.Abs(e)
                raise ParseError(f"\\left{nx}")
            if c == "frac":
                n = self.group()
                d = self.group()
                return n / d
            if c == "sqrt":
                if self.peek() == ("op", "["):
                    self.next()
                    k = self.sum()
                    self.expect("op", "]")
                    return sp.Pow(self.group(), 1 / k)
                return sp.sqrt(self.group())
            if c == "pi":
                return sp.pi
            if c == "operatorname":
                self.expect("op", "{")
                name = ""
                while self.peek()[0] == "letter" or self.peek()[0] == "num":
                    name += self.next()[1]
                self.expect("op", "}")
                return self.apply(name)
            if c in FUNCS:
                return self.apply(c)
            raise ParseError(f"unknown command \\{c}")
        raise ParseError(f"unexpected token {tok}")

    def apply(self, name):
        if name not in FUNCS:
            raise ParseError(f"unknown function {name}")
        f = FUNCS[name]
        power = None
        base_ = None
        if name == "log" and self.peek() == ("op", "_"):
            self.next()
            base_ = self.group()
        if self.peek() == ("op", "^"):
            power = self.exponent()
        args = self.func_args()
        if name == "log" and base_ is not None:
            val = sp.log(args[0]) / sp.log(base_)
        else:
            val = f(*args)
        if power is not None:
            if power == -1 and name in ("sin", "cos", "tan"):
                raise ParseError("inverse trig power notation")
            val = sp.Pow(val, power)
        return val


def parse(s, leaf_map):
    toks = tokenize(s, leaf_map.keys())
    p = LatexParser(toks, leaf_map)
    r = p.relation()
    if p.peek()[0] != "end":
        raise ParseError(f"trailing input at {p.peek()}")
    return r
