"""Independent reader of the plain-text ("code") rendering of formulas (oracle of C17).

Written from the property statement: ordinary arithmetic precedence
    '+' '-'  <  '*' '/' (left-assoc)  <  unary minus  <  '^' (right-assoc),
function-call syntax name(args), numbers.  Tokenisation is NAME-AWARE: the
display names of the expression's own leaves are matched first, longest first
(names such as `t_1/2`, `Delta(p)_max`, `d(x)` exist in the catalogue).
"""
from __future__ import annotations

import re
from fractions import Fraction

import sympy as sp


class ParseError(Exception):
    pass


TRANSPARENT = {"sqrt": sp.sqrt, "exp": sp.exp, "log": sp.log, "sin": sp.sin, "cos": sp.cos, "tan": sp.tan, "cot": sp.cot, "sec": sp.sec, "csc": sp.csc,
               "sinh": sp.sinh, "cosh": sp.cosh, "tanh": sp.tanh, "coth": sp.coth, "asin": sp.asin, "acos": sp.acos, "atan": sp.atan, "atan2": sp.atan2,
               "Abs": sp.Abs, "abs": sp.Abs, "Min": sp.Min, "Max": sp.Max, "sign": sp.sign, "acot": sp.acot, "asinh": sp.asinh, "acosh": sp.acosh,
               "atanh": sp.atanh}
IDENT = re.compile(r"[A-Za-z_][A-Za-z_0-9]*")
NUMBER = re.compile(r"\d+\.\d*(?:[eE][-+]?\d+)?|\.\d+(?:[eE][-+]?\d+)?|\d+(?:[eE][-+]?\d+)?")


def tokenize(s: str, leaf_names):
    names = sorted((n for n in leaf_names if n), key=len, reverse=True)
    toks = []
    i = 0
    n = len(s)
    while i < n:
        ch = s[i]
        if ch.isspace():
            i += 1
            continue
        matched = None
        for nm in names:
            if s.startswith(nm, i):
                j = i + len(nm)
                # a name ending in an identifier character must not run into another identifier character
                if (nm[-1].isalnum() or nm[-1] == "_") and j < n and (s[j].isalnum() or s[j] == "_"):
                    continue
                # nor start in the middle of one
                if (nm[0].isalnum() or nm[0] == "_") and i > 0 and (s[i - 1].isalnum() or s[i - 1] == "_") and toks and toks[-1][0] in ("ident", "num"):
                    continue
                matched = nm
                break
        if matched is not None:
            toks.append(("leaf", matched))
            i += len(matched)
            continue
        m = NUMBER.match(s, i)
        if m:
            toks.append(("num", m.group()))
            i = m.end()
            continue
        m = IDENT.match(s, i)
        if m:
            toks.append(("ident", m.group()))
            i = m.end()
            continue
        if ch in "+-*/^(),=[]<>":
            if s.startswith(">=", i) or s.startswith("<=", i) or s.startswith("!=", i):
                toks.append(("op", s[i:i + 2]))
                i += 2
            else:
                toks.append(("op", ch))
                i += 1
            continue
        raise ParseError(f"unexpected character {ch!r} at {i} in {s!r}")
    toks.append(("end", None))
    return toks


class Parser:

    def __init__(self, toks, leaf_map, constants=None):
        self.toks = toks
        self.p = 0
        self.leaf_map = leaf_map
        self.constants = constants or {"pi": sp.pi, "E": sp.E, "I": sp.I, "oo": sp.oo}

    def peek(self):
        return self.toks[self.p]

    def next(self):
        t = self.toks[self.p]
        self.p += 1
        return t

    def expect(self, kind, val=None):
        t = self.next()
        if t[0] != kind or (val is not None and t[1] != val):
            raise ParseError(f"expected {val or kind}, got {t}")
        return t

    # relation := sum (('='|'<'|'>'|'<='|'>=') sum)?
    def relation(self):
        l = self.sum()
        t = self.peek()
        if t[0] == "op" and t[1] in ("=", "<", ">", "<=", ">=", "!="):
            self.next()
            r = self.sum()
            return ("rel", t[1], l, r)
        return l

    def sum(self):
        l = self.term()
        while True:
            t = self.peek()
            if t[0] == "op" and t[1] in "+-":
                self.next()
                r = self.term()
                l = l + r if t[1] == "+" else l - r
            else:
                return l

    def term(self):
        l = self.unary()
        while True:
            t = self.peek()
            if t[0] == "op" and t[1] in "*/":
                self.next()
                r = self.unary()
                l = l * r if t[1] == "*" else l / r
            else:
                return l

    def unary(self):
        t = self.peek()
        if t[0] == "op" and t[1] == "-":
            self.next()
            return -self.unary()
        if t[0] == "op" and t[1] == "+":
            self.next()
            return self.unary()
        return self.power()

    def power(self):
        b = self.atom()
        t = self.peek()
        if t[0] == "op" and t[1] == "^":
            self.next()
            e = self.unary()          # right-assoc; exponent may carry a sign
            return sp.Pow(b, e)
        return b

    def args(self):
        out = []
        if self.peek() == ("op", ")"):
            return out
        while True:
            out.append(self.sum())
            t = self.peek()
            if t == ("op", ","):
                self.next()
                continue
            return out

    def atom(self):
        t = self.next()
        if t[0] == "num":
            if "." in t[1] or "e" in t[1].lower():
                # a decimal literal denotes the double it round-trips to (what the original Float holds)
                fr = Fraction(float(t[1]))
                return sp.Rational(fr.numerator, fr.denominator)
            return sp.Integer(t[1])
        if t[0] == "leaf":
            return self.leaf_map[t[1]]
        if t[0] == "ident":
            nm = t[1]
            if self.peek() == ("op", "("):
                if nm not in TRANSPARENT:
                    raise ParseError(f"call of unknown function {nm}")
                self.next()
                a = self.args()
                self.expect("op", ")")
                f = TRANSPARENT[nm]
                return f(*a)
            if nm in self.constants:
                return self.constants[nm]
            raise ParseError(f"unknown name {nm}")
        if t == ("op", "("):
            e = self.sum()
            self.expect("op", ")")
            return e
        raise ParseError(f"unexpected token {t}")


def parse(s, leaf_map):
    """returns a sympy expression (over the placeholder symbols of leaf_map) or ('rel', op, lhs, rhs)"""
    toks = tokenize(s, leaf_map.keys())
    p = Parser(toks, leaf_map)
    r = p.relation()
    if p.peek()[0] != "end":
        raise ParseError(f"trailing input at token {p.peek()} in {s!r}")
    return r


# ----------------------------------------------------------------------
TRANSPARENT_CLASSES = (sp.exp, sp.log, sp.sin, sp.cos, sp.tan, sp.cot, sp.sec, sp.csc, sp.sinh, sp.cosh, sp.tanh, sp.coth, sp.asin, sp.acos, sp.atan,
                       sp.atan2, sp.Abs, sp.Min, sp.Max, sp.sign, sp.acot, sp.asinh, sp.acosh, sp.atanh)


def abstract_leaves(expr, render, float_key=None):
    """Replace every non-arithmetic sub-expression of `expr` by a placeholder symbol named after its own rendering.
    Returns (abstracted expression, {rendering: placeholder})."""
    leaf_map = {}
    by_node = {}

    def ph(node):
        key = render(node)
        if key not in leaf_map:
            leaf_map[key] = sp.Symbol(f"L{len(leaf_map)}_", real=True)
        return leaf_map[key]

    def walk(e):
        if e.is_Float and e.is_finite:
            # a float literal is a named parameter (named by its own rendering): keeps binary rounding out of the comparison
            mag = abs(e)
            key = float_key(mag) if float_key else sp.sstr(mag, full_prec=False)      # how a float prints inside an expression ("0.4")
            if key not in leaf_map:
                leaf_map[key] = sp.Symbol(f"L{len(leaf_map)}_", real=True)
                if not float_key:
                    leaf_map.setdefault(sp.sstr(mag, full_prec=True), leaf_map[key])   # and on its own ("0.400000000000000")
            return leaf_map[key] if e > 0 else (-leaf_map[key] if e < 0 else sp.S.Zero)
        if e.is_Number or e in (sp.pi, sp.E, sp.I, sp.oo, -sp.oo, sp.zoo, sp.nan):
            return e
        if isinstance(e, (sp.Add, sp.Mul, sp.Pow)):
            return e.func(*[walk(a) for a in e.args], evaluate=False)
        if isinstance(e, TRANSPARENT_CLASSES):
            return e.func(*[walk(a) for a in e.args], evaluate=False)
        return ph(e)

    return walk(sp.sympify(expr)), leaf_map
