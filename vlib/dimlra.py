"""DimLRA: independent dimensional-homogeneity walker over real equation trees.

A dimension is a *linear form*: {atom: vector of 7 z3 Reals}, atom 1 = the constant part, other atoms = distinct
non-numeric exponent expressions (p*V**gamma: the form of V**gamma is {gamma: dim V}).  An equality between forms must hold
for every value of the atoms, i.e. coefficient-wise.  Wildcard-dimension symbols contribute 7 existential Real variables.
All emitted constraints are linear (QF_LRA); z3 decides them per equation and its unsat core names the offending node.
"""
from __future__ import annotations

import itertools

import sympy as sp
import z3
from sympy.physics.units import Dimension, Quantity as SymQuantity
from sympy.physics.units.systems.si import dimsys_SI

BASE = ["mass", "length", "time", "current", "temperature", "amount_of_substance", "luminous_intensity"]
ONE = sp.S.One


class Unencoded(Exception):
    pass


class Form(dict):
    """atom -> list of 7 z3 terms"""


def zvec():
    return [z3.RealVal(0)] * 7


def const_form(v):
    f = Form()
    f[ONE] = list(v)
    return f


ZERO_FORM = None


def fadd(a, b, sign=1):
    out = Form({k: list(v) for k, v in a.items()})
    for k, v in b.items():
        if k in out:
            out[k] = [x + sign * y for x, y in zip(out[k], v)]
        else:
            out[k] = [sign * y for y in v]
    return out


def fscale(a, c):
    c = z3.Q(int(c.p), int(c.q)) if isinstance(c, sp.Rational) else c
    return Form({k: [c * x for x in v] for k, v in a.items()})


class Walker:

    def __init__(self):
        self.cons = []            # (label, z3 constraint)
        self.wild = itertools.count()
        self.wild_cache = {}
        self.notes = []

    # -- leaves
    def dim_of_dimension(self, d, who):
        from symplyphysics.core.dimensions.dimensions import AnyDimension
        if isinstance(d, AnyDimension):
            return self.wildcard(who)
        try:
            deps = dimsys_SI.get_dimensional_dependencies(d)
        except Exception as e:
            raise Unencoded(f"dimension {d}: {type(e).__name__}")
        v = zvec()
        for k, e in deps.items():
            nm = str(k.name) if isinstance(k, Dimension) else str(k)
            if nm == "angle":
                continue
            if nm not in BASE:
                if nm == "any_dimension":
                    return self.wildcard(who)
                raise Unencoded(f"base dimension {nm}")
            e = sp.nsimplify(e)
            if not e.is_Rational:
                raise Unencoded(f"non-rational exponent in declared dimension {d}")
            v[BASE.index(nm)] = z3.Q(int(e.p), int(e.q))
        return const_form(v)

    def wildcard(self, who):
        key = who if isinstance(who, str) else id(who)
        if key not in self.wild_cache:
            n = next(self.wild)
            self.wild_cache[key] = const_form([z3.Real(f"w{n}_{b}") for b in BASE])
        return self.wild_cache[key]

    def require_equal(self, a, b, label):
        keys = set(a) | set(b)
        z = zvec()
        cs = []
        for k in keys:
            cs += [x == y for x, y in zip(a.get(k, z), b.get(k, z))]
        self.cons.append((label, z3.And(cs) if cs else z3.BoolVal(True)))

    def require_dimensionless(self, a, label):
        self.require_equal(a, Form(), label)

    @staticmethod
    def is_any_value(e):
        return e in (sp.S.Zero, sp.oo, -sp.oo, sp.zoo, sp.nan) or (e.is_Number and e == 0)

    # -- main
    def dim(self, e, ctx=""):
        from symplyphysics.core.symbols.symbols import DimensionSymbol
        from symplyphysics.core.operations.symbolic import Symbolic
        e = sp.sympify(e)
        if e.is_Number or e in (sp.pi, sp.E, sp.I, sp.oo, -sp.oo, sp.zoo, sp.nan, sp.GoldenRatio, sp.EulerGamma):
            return Form()
        if isinstance(e, sp.Idx):
            return Form()
        if isinstance(e, Symbolic):
            stored = self.dim_of_dimension(e.dimension, e)
            try:
                inner = self.dim(e.factor, ctx)
                self.require_equal(stored, inner, f"{ctx}: wrapper {type(e).__name__} stores a dimension different from its argument {e.factor}")
            except Unencoded:
                pass
            return stored
        if isinstance(e, SymQuantity):
            return self.dim_of_dimension(e.dimension, e)
        if isinstance(e, sp.Indexed):
            b = e.base
            if isinstance(b, DimensionSymbol):
                return self.dim_of_dimension(b.dimension, b)
            return self.wildcard(b)
        if isinstance(e, DimensionSymbol) and hasattr(e, "dimension") and isinstance(e, sp.Basic) and not isinstance(e, sp.FunctionClass):
            return self.dim_of_dimension(e.dimension, e)
        if isinstance(e, sp.Symbol):
            return self.wildcard(e)         # undeclared plain symbol (integration constants C1, dummies)
        if isinstance(e, sp.Mul):
            f = Form()
            for a in e.args:
                f = fadd(f, self.dim(a, ctx))
            return f
        if isinstance(e, sp.Pow):
            b = self.dim(e.base, ctx)
            x = e.exp
            xd = self.dim(x, ctx)
            self.require_dimensionless(xd, f"{ctx}: exponent {x} of {e.base} must be dimensionless")
            if x.is_Rational:
                return fscale(b, x)
            if x.is_number:
                xr = sp.nsimplify(x, rational=True) if x.is_real else None
                if xr is not None and xr.is_Rational:
                    return fscale(b, xr)
                raise Unencoded(f"irrational numeric exponent {x}")
            if set(b) - {ONE}:
                raise Unencoded("symbolic exponent over a base that already carries a symbolic exponent")
            f = Form()
            f[x] = list(b.get(ONE, zvec()))
            return f
        if isinstance(e, sp.Add):
            return self.common(e.args, ctx, f"terms of the sum {self.short(e)}")
        if isinstance(e, (sp.Min, sp.Max)):
            return self.common(e.args, ctx, f"arguments of {self.short(e)}")
        if isinstance(e, (sp.Abs, sp.conjugate, sp.re, sp.im)):
            return self.dim(e.args[0], ctx)
        if isinstance(e, sp.sign):
            self.dim(e.args[0], ctx)
            return Form()
        if isinstance(e, sp.Piecewise):
            vals = []
            for v, c in e.args:
                vals.append(v)
                self.cond(c, ctx)
            return self.common(vals, ctx, f"branches of {self.short(e)}")
        if isinstance(e, sp.core.relational.Relational):
            self.cond(e, ctx)
            return Form()
        if isinstance(e, sp.Derivative):
            f = self.dim(e.expr, ctx)
            for v, n in e.variable_count:
                if not sp.sympify(n).is_Integer:
                    raise Unencoded("symbolic derivative order")
                f = fadd(f, fscale(self.dim(v, ctx), sp.Integer(n)), -1)
            return f
        if isinstance(e, sp.Integral):
            f = self.dim(e.function, ctx)
            for lim in e.limits:
                v = lim[0]
                dv = self.dim(v, ctx)
                f = fadd(f, dv)
                for b in lim[1:]:
                    if not self.is_any_value(b):
                        self.require_equal(self.dim(b, ctx), dv, f"{ctx}: integration limit {b} vs variable {v}")
            return f
        if isinstance(e, sp.Sum):
            return self.dim(e.function, ctx)
        if isinstance(e, sp.Product):
            f = self.dim(e.function, ctx)
            self.require_dimensionless(f, f"{ctx}: factor of a product over a symbolic range must be dimensionless")
            return f
        if isinstance(e, sp.Subs):
            return self.dim(e.expr, ctx)
        if isinstance(e, sp.MatrixBase):
            raise Unencoded("matrix in scalar position")
        clsname = type(e).__name__
        if clsname in ("IndexedSum",):
            return self.dim(e.args[0], ctx)
        if clsname in ("IndexedProduct",):
            f = self.dim(e.args[0], ctx)
            self.require_dimensionless(f, f"{ctx}: factor of an indexed product must be dimensionless")
            return f
        if isinstance(e, sp.core.function.AppliedUndef):
            fn = e.func
            for a in e.args:
                try:
                    self.dim(a, ctx)       # arguments must be internally consistent, otherwise unconstrained
                except Unencoded:
                    pass
            if isinstance(fn, DimensionSymbol):
                return self.dim_of_dimension(fn.dimension, fn)
            return self.wildcard(str(fn))
        if isinstance(e, sp.DiracDelta):
            return fscale(self.dim(e.args[0], ctx), sp.Integer(-1))
        if isinstance(e, sp.Heaviside):
            self.dim(e.args[0], ctx)
            return Form()
        if isinstance(e, sp.Function):
            # elementary / special functions: dimensionless arguments, dimensionless value
            for a in e.args:
                self.require_dimensionless(self.dim(a, ctx), f"{ctx}: argument {self.short(a)} of {type(e).__name__} must be dimensionless")
            return Form()
        if isinstance(e, sp.Order):
            raise Unencoded("Order term")
        raise Unencoded(f"node {clsname}")

    def common(self, args, ctx, what):
        terms = [a for a in args if not self.is_any_value(sp.sympify(a))]
        if not terms:
            return self.wildcard(f"all-any:{what}:{next(self.wild)}")
        forms = [self.dim(a, ctx) for a in terms]
        for a, f in zip(terms[1:], forms[1:]):
            self.require_equal(forms[0], f, f"{ctx}: {what}: {self.short(terms[0])}  vs  {self.short(a)}")
        return forms[0]

    def cond(self, c, ctx):
        if c in (sp.true, sp.false, True, False):
            return
        if isinstance(c, (sp.And, sp.Or, sp.Not)):
            for a in c.args:
                self.cond(a, ctx)
            return
        if isinstance(c, sp.core.relational.Relational):
            l, r = c.lhs, c.rhs
            if isinstance(l, sp.MatrixBase) or isinstance(r, sp.MatrixBase) or getattr(l, "is_Matrix", False) or getattr(r, "is_Matrix", False):
                self.matrix_eq(l, r, ctx)
                return
            if self.is_any_value(sp.sympify(l)) or self.is_any_value(sp.sympify(r)):
                self.dim(l, ctx)
                self.dim(r, ctx)
                return
            self.require_equal(self.dim(l, ctx), self.dim(r, ctx), f"{ctx}: sides of {c.rel_op}: {self.short(l)}  vs  {self.short(r)}")
            return
        raise Unencoded(f"condition {type(c).__name__}")

    def matrix_eq(self, l, r, ctx):
        try:
            L = sp.Matrix(l.doit() if hasattr(l, "doit") else l) if not isinstance(l, sp.MatrixBase) else l
            R = sp.Matrix(r.doit() if hasattr(r, "doit") else r) if not isinstance(r, sp.MatrixBase) else r
            L = L.as_explicit() if hasattr(L, "as_explicit") else L
            R = R.as_explicit() if hasattr(R, "as_explicit") else R
        except Exception as e:
            raise Unencoded(f"matrix equation: {type(e).__name__}")
        if L.shape != R.shape:
            raise Unencoded("matrix shapes differ")
        for i in range(L.shape[0]):
            for j in range(L.shape[1]):
                a, b = L[i, j], R[i, j]
                if self.is_any_value(sp.sympify(a)) or self.is_any_value(sp.sympify(b)):
                    continue
                self.require_equal(self.dim(a, ctx), self.dim(b, ctx), f"{ctx}: matrix entry [{i},{j}]: {self.short(a)}  vs  {self.short(b)}")

    @staticmethod
    def short(e):
        s = str(e)
        return s if len(s) < 90 else s[:87] + "..."


def check_equation(eq, name):
    """returns dict(verdict=homogeneous|inhomogeneous|unencoded, core=[labels], n_constraints, wildcards)"""
    w = Walker()
    try:
        w.cond(eq, name)
    except Unencoded as e:
        return {"verdict": "unencoded", "why": str(e)}
    except RecursionError:
        return {"verdict": "unencoded", "why": "recursion"}
    s = z3.Solver()
    s.set("timeout", 20000)
    s.set(unsat_core=True)
    for i, (label, c) in enumerate(w.cons):
        s.assert_and_track(c, z3.Bool(f"c{i}"))
    r = str(s.check())
    if r == "sat":
        return {"verdict": "homogeneous", "n_constraints": len(w.cons), "wildcards": len(w.wild_cache)}
    if r == "unsat":
        core = [int(str(c)[1:]) for c in s.unsat_core()]
        return {"verdict": "inhomogeneous", "core": [w.cons[i][0] for i in sorted(core)], "n_constraints": len(w.cons)}
    return {"verdict": "unknown", "why": "z3 unknown"}
