"""LiftExec: lifted native execution of the real repo functions.

The real function objects run natively.  Their numeric inputs are SymPy
expressions over *verification scalars* (VS symbols = z3 Reals) and their
dimension inputs are SymDim objects (real sympy Dimension subclass carrying a
vector of 8 z3 Reals).  The few primitive predicates the code branches on are
rebound in the module namespaces to lifted versions whose truth value is a
fork point; all paths are explored depth-first with z3 pruning.
"""
from __future__ import annotations

import contextlib
import itertools
import time

import sympy as sp
import z3

from vlib.par import guarded
from sympy.physics.units import Dimension
from sympy.physics.units.systems.si import dimsys_SI as REAL_DIMSYS

from vlib.s2smt import Enc, Unencodable

SLOTS = ["mass", "length", "time", "current", "temperature", "amount_of_substance", "luminous_intensity", "angle"]
ANGLE = SLOTS.index("angle")


class Abort(BaseException):
    """path infeasible / exploration steering (BaseException: not swallowed by `except Exception`)"""


class LiftUnsupported(Exception):
    pass


class VS(sp.Symbol):
    """verification scalar: a real-valued symbolic number"""
    __slots__ = ()

    def __new__(cls, name, **kw):
        kw.setdefault("real", True)
        return super().__new__(cls, name, **kw)


def has_vs(e) -> bool:
    e = sp.sympify(e)
    return any(isinstance(a, VS) for a in e.free_symbols)


def only_vs(e) -> bool:
    e = sp.sympify(e)
    return all(isinstance(a, VS) for a in e.free_symbols)


# ----------------------------------------------------------------------
class Session:
    """One harness = one Session: shared encoder + explorer state."""
    current = None

    def __init__(self, ctx=None, timeout_ms=10000):
        self.enc = Enc()
        self.enc.use_assumptions = False   # VS symbols are plain reals
        self.ctx = ctx
        self.timeout_ms = timeout_ms
        self.counter = itertools.count()
        self.assume = []          # harness-level assumptions (z3)
        self.run = None           # active Run
        self.solver_s = 0.0
        self.queries = 0

    # -- creation helpers
    def scalar(self, stem="s"):
        return VS(f"{stem}{next(self.counter)}")

    def dim(self, stem="D", dimensionless_angle=False):
        n = next(self.counter)
        vec = [z3.Real(f"{stem}{n}_{s}") for s in SLOTS]
        return SymDim(vec)

    def z(self, e):
        """z3 term of a sympy expression over VS"""
        return self.enc.tr(sp.sympify(e))

    def base(self):
        return list(self.assume) + list(self.enc.side) + list(self.enc.domain) + list(self.enc.assume)

    def check(self, cons, timeout_ms=None):
        s = z3.Solver()
        s.set("timeout", timeout_ms or self.timeout_ms)
        for c in self.base():
            s.add(c)
        for c in cons:
            s.add(c)
        t0 = time.time()
        with guarded("z3 check (Session)"):
            r = str(s.check())
        dt = time.time() - t0
        self.solver_s += dt
        self.queries += 1
        if self.ctx is not None:
            self.ctx.add_solver(1, dt)
        return r, (s.model() if r == "sat" else None)

    @contextlib.contextmanager
    def active(self):
        prev = Session.current
        Session.current = self
        try:
            yield self
        finally:
            Session.current = prev


def S() -> Session:
    if Session.current is None:
        raise RuntimeError("no active LiftExec session")
    return Session.current


# ----------------------------------------------------------------------
class SymBool:

    def __init__(self, cond):
        self.cond = cond

    def __bool__(self):
        return S().decide(self.cond)


class Run:

    def __init__(self, prefix):
        self.prefix = list(prefix)
        self.decisions = []
        self.alt = []
        self.pc = []


def _decide(self: Session, cond) -> bool:
    cond = z3.simplify(cond) if z3.is_expr(cond) else z3.BoolVal(bool(cond))
    if z3.is_true(cond):
        return True
    if z3.is_false(cond):
        return False
    run = self.run
    if run is None and not getattr(self, "generic_outside", False):
        raise RuntimeError("symbolic branch outside explore()")
    if run is None:
        # (opt-in: Session.generic_outside) a lifted predicate reached while the harness is still BUILDING its input (SymPy's constructors may call into the code under
        # test, e.g. Abs(quantity)): decide as at a generic point -- every free variable gets a fixed, name-derived, non-zero rational
        import zlib
        from z3 import z3util
        sub = []
        for v in z3util.get_vars(cond):
            h = zlib.crc32(str(v).encode())
            if z3.is_real(v) or z3.is_int(v):
                sub.append((v, z3.RealVal(f"{(h % 89) + 2}/{(h // 89) % 13 + 3}") if z3.is_real(v) else z3.IntVal((h % 89) + 2)))
            elif z3.is_bool(v):
                sub.append((v, z3.BoolVal(bool(h & 1))))
        val = z3.simplify(z3.substitute(cond, *sub))
        if z3.is_true(val):
            return True
        if z3.is_false(val):
            return False
        raise RuntimeError("symbolic branch outside explore() that a generic point does not decide")
    p = len(run.decisions)
    if p < len(run.prefix):
        choice = run.prefix[p]
        run.decisions.append(choice)
        run.alt.append(False)
        run.pc.append(cond if choice else z3.Not(cond))
        return choice
    rt, _ = self.check(run.pc + [cond])
    rf, _ = self.check(run.pc + [z3.Not(cond)])
    if rt == "unknown" or rf == "unknown":
        run.unknown = True
    t_ok, f_ok = rt != "unsat", rf != "unsat"
    if not t_ok and not f_ok:
        raise Abort("infeasible path")
    choice = t_ok
    run.decisions.append(choice)
    run.alt.append(t_ok and f_ok)
    run.pc.append(cond if choice else z3.Not(cond))
    return choice


Session.decide = _decide


class Path:

    def __init__(self, pc, kind, value, decisions, unknown=False):
        self.pc = pc
        self.kind = kind          # "ret" | "exc"
        self.value = value        # returned object | exception instance
        self.decisions = decisions
        self.unknown = unknown

    def describe(self):
        if self.kind == "ret":
            return "returns"
        return f"raises {type(self.value).__name__}"


def explore(fn, max_paths=4000):
    """Run fn() under every feasible combination of lifted branch outcomes."""
    ses = S()
    paths = []
    stack = [[]]
    while stack:
        prefix = stack.pop()
        run = Run(prefix)
        run.unknown = False
        ses.run = run
        if getattr(ses, "clear_sympy_cache", False):
            # SymPy memoises evaluated relationals/assumptions: a decision taken on an earlier path must not be replayed from the cache
            from sympy.core.cache import clear_cache
            clear_cache()
        try:
            try:
                val = fn()
                kind = "ret"
            except Abort:
                continue
            except LiftUnsupported:
                raise
            except Exception as e:  # real code raised: an outcome
                val = e
                kind = "exc"
        finally:
            ses.run = None
        paths.append(Path(list(run.pc), kind, val, list(run.decisions), run.unknown))
        if len(paths) > max_paths:
            raise LiftUnsupported("path explosion")
        for i in range(len(prefix), len(run.decisions)):
            if run.alt[i]:
                stack.append(run.decisions[:i] + [not run.decisions[i]])
    if ses.ctx is not None:
        ses.ctx.paths += len(paths)
    return paths


def coverage_ok(paths):
    """unwinding assertion of this engine: the explored path conditions cover
    the whole (assumed) input space"""
    ses = S()
    if not paths:
        return "no-paths"
    neg = [z3.Not(z3.And(p.pc)) if p.pc else z3.BoolVal(False) for p in paths]
    r, _ = ses.check(neg)
    return "covered" if r == "unsat" else ("gap" if r == "sat" else "unknown")


# ----------------------------------------------------------------------
class SymDim(Dimension):
    """sympy Dimension whose exponent vector is symbolic (8 z3 Reals)"""
    _registry = {}
    _tainted = set()
    _count = itertools.count()

    @property
    def tainted(self):
        return self.name in SymDim._tainted

    def __new__(cls, vec_or_name, symbol=None):
        if isinstance(vec_or_name, (list, tuple)):
            name = sp.Symbol(f"SDIM{next(cls._count)}")
            cls._registry[name] = [z3.simplify(v) if z3.is_expr(v) else z3.RealVal(v) for v in vec_or_name]
        else:
            name = sp.sympify(vec_or_name)
            if name not in cls._registry:
                raise LiftUnsupported(f"SymDim rebuilt from unknown name {name}")
        obj = Dimension.__new__(cls, name)
        return obj

    @property
    def vec(self):
        return SymDim._registry[self.name]

    def __mul__(self, other):
        if isinstance(other, Dimension):
            d = SymDim([a + b for a, b in zip(self.vec, to_vec(other))])
            if self.tainted or getattr(other, "tainted", False):
                SymDim._tainted.add(d.name)
            return d
        o = sp.sympify(other)
        if o.has(sp.physics.units.Quantity):
            raise TypeError("cannot sum dimension and quantity")
        return self

    __rmul__ = __mul__

    def __truediv__(self, other):
        if isinstance(other, Dimension):
            return SymDim([a - b for a, b in zip(self.vec, to_vec(other))])
        return self

    def __rtruediv__(self, other):
        if isinstance(other, Dimension):
            return SymDim([b - a for a, b in zip(self.vec, to_vec(other))])
        return SymDim([-a for a in self.vec])

    def __pow__(self, other):
        o = sp.sympify(other)
        e = S().z(o)
        d = SymDim([a * e for a in self.vec])
        if o.atoms(sp.physics.units.Quantity) or self.name in SymDim._tainted:
            # the real Dimension would carry Quantity objects in its exponent: not a dimension dimsys_SI can process
            SymDim._tainted.add(d.name)
        return d

    def _eval_power(self, other):
        return self.__pow__(other)

    def subs(self, *args, **kw):
        if len(args) == 2 and str(args[0]) == "angle" and args[1] == 1:
            v = list(self.vec)
            v[ANGLE] = z3.RealVal(0)
            return SymDim(v)
        raise LiftUnsupported(f"SymDim.subs{args}")

    def _sympystr(self, p):
        return f"SymDim({self.name})"

    # Python-level (in)equality of Dimension objects is STRUCTURAL in SymPy: equivalent dimensions spelled differently
    # (energy vs mass*length**2/time**2) are unequal.  Here: == needs equal exponent vectors AND the same spelling, and whether
    # two distinct symbolic dimensions are spelled alike is a free Boolean (a fork): code that compares dimensions with ==/!=
    # instead of dimsys_SI.equivalent_dims then has a path "equivalent, yet unequal"; the replay realises it by respelling one leaf.
    def _struct_eq(self, other):
        if self is other or (isinstance(other, SymDim) and other.name == self.name):
            return True
        if not isinstance(other, Dimension):
            return False
        ses = Session.current
        if ses is None or ses.run is None:
            return False
        try:
            if not bool(SymBool(z3.And([a == b for a, b in zip(self.vec, to_vec(other))]))):
                return False
        except LiftUnsupported:
            return False
        key = "~".join(sorted([str(self.name), str(getattr(other, "name", other))]))
        return bool(SymBool(z3.Bool("samespelling_" + key)))

    def __eq__(self, other):
        return self._struct_eq(other)

    def __ne__(self, other):
        return not self._struct_eq(other)

    __hash__ = Dimension.__hash__


def to_vec(d):
    """exponent vector (8 z3 terms) of a concrete or symbolic Dimension"""
    if isinstance(d, SymDim):
        return d.vec
    deps = REAL_DIMSYS.get_dimensional_dependencies(d)
    out = [z3.RealVal(0)] * len(SLOTS)
    for k, v in deps.items():
        nm = str(k.name) if isinstance(k, Dimension) else str(k)
        if nm not in SLOTS:
            raise LiftUnsupported(f"base dimension {nm}")
        out[SLOTS.index(nm)] = S().z(v)
    return out


def erase_angle(v):
    v = list(v)
    v[ANGLE] = z3.RealVal(0)
    return v


def vec_eq(a, b):
    return z3.And([x == y for x, y in zip(a, b)])


def vec_zero(a):
    return z3.And([x == 0 for x in a])


def is_symbolic_dim(d):
    if isinstance(d, SymDim):
        return True
    try:
        return any(isinstance(a, VS) for a in d.free_symbols)
    except Exception:
        return False


class DimSysProxy:
    """stands in for `dimsys_SI` inside the module under execution"""

    def __init__(self, real=REAL_DIMSYS):
        self._real = real

    def __getattr__(self, n):
        return getattr(self._real, n)

    def equivalent_dims(self, a, b):
        if is_symbolic_dim(a) or is_symbolic_dim(b):
            return SymBool(vec_eq(to_vec(a), to_vec(b)))
        return self._real.equivalent_dims(a, b)

    def is_dimensionless(self, d):
        if is_symbolic_dim(d):
            return SymBool(vec_zero(to_vec(d)))
        return self._real.is_dimensionless(d)

    def get_dimensional_dependencies(self, d, mark_dimensionless=False):
        if isinstance(d, SymDim):
            raise LiftUnsupported("get_dimensional_dependencies(SymDim)")
        return self._real.get_dimensional_dependencies(d, mark_dimensionless=mark_dimensionless)


# ----------------------------------------------------------------------
# symbolic quantities
_VQ_COUNT = itertools.count()


def make_quantity(scale, dimension, display_symbol=None):
    """A real symplyphysics Quantity whose scale factor is a sympy expression
    over VS symbols and whose dimension may be a SymDim.  Built with the real
    class' __new__ and the SI registration calls of the real __init__ (the
    constructor's own arithmetic is C05's subject, not re-used here)."""
    from sympy.physics.units import Quantity as SymQuantity
    from sympy.physics.units.systems.si import SI
    from symplyphysics.core.symbols.quantities import Quantity
    from symplyphysics.core.symbols.symbols import DimensionSymbol
    # a display name without "QTY" keeps Quantity._sympystr (used by the repo's error messages) off dimension_to_si_unit
    display_symbol = display_symbol or f"vq{next(_VQ_COUNT)}"
    q = Quantity.__new__(Quantity, display_symbol=display_symbol)
    DimensionSymbol.__init__(q, display_symbol or str(q.name), dimension)
    SI.set_quantity_dimension(q, dimension)
    SI.set_quantity_scale_factor(q, sp.sympify(scale))
    return q


# ----------------------------------------------------------------------
# lifted predicates (the complete stub list of DESIGN 2.2)
def _orig(mod, name):
    return getattr(mod, "__lift_orig_" + name, None) or getattr(mod, name)


def lifted_is_any_dimension(orig):
    def is_any_dimension(factor):
        f = sp.sympify(factor)
        if f.free_symbols and only_vs(f):
            if f.has(sp.I):
                re_, im_ = f.as_real_imag()
                return bool(SymBool(z3.And(S().z(re_) == 0, S().z(im_) == 0)))
            return bool(SymBool(S().z(f) == 0))
        return orig(factor)
    return is_any_dimension


def lifted_is_number(orig):
    def is_number(value):
        try:
            v = sp.sympify(value)
        except Exception:
            return orig(value)
        if isinstance(v, sp.Basic) and v.free_symbols and only_vs(v) and not v.atoms(sp.physics.units.Quantity):
            return True
        return orig(value)
    return is_number


def lifted_complex(value=0, *a):
    try:
        v = sp.sympify(value)
    except Exception:
        return complex(value, *a)
    if isinstance(v, sp.Basic) and v.free_symbols and only_vs(v):
        return SymNumber(v)
    if isinstance(v, sp.Basic) and v.free_symbols and any(isinstance(s, VS) for s in v.free_symbols):
        # verification scalars mixed with a foreign (free) symbol: for concrete magnitudes SymPy would have folded the expression
        # (0 * x -> 0), so complex() succeeds exactly when every coefficient of the foreign symbols vanishes: fork on that
        foreign = sorted((s for s in v.free_symbols if not isinstance(s, VS)), key=str)
        try:
            poly = sp.Poly(sp.expand(v), *foreign)
        except Exception:
            return complex(value, *a)
        const = sp.S.Zero
        for monom, coeff in poly.terms():
            if all(m == 0 for m in monom):
                const = coeff
            elif not bool(SymBool(S().z(coeff) == 0)):
                raise TypeError("Cannot convert expression to complex")
        return SymNumber(const)
    return complex(value, *a)


class SymNumber:
    """what float()/complex() return for a symbolic scalar"""

    def __init__(self, expr):
        self.expr = sp.sympify(expr)

    def _part(self, k):
        e = self.expr
        parts = sp.expand_complex(e).as_real_imag() if e.has(sp.I) else (e, sp.S.Zero)
        x = parts[k]
        return SymFloat(S().z(x), x)

    @property
    def real(self):
        return self._part(0)

    @property
    def imag(self):
        return self._part(1)


def lifted_float(value=0):
    if isinstance(value, SymFloat):
        return value
    try:
        v = sp.sympify(value)
        if isinstance(v, sp.Basic) and v.free_symbols and only_vs(v):
            return SymFloat(S().z(v), v)
    except (sp.SympifyError, TypeError):
        pass
    return float(value)


class SymFloat:
    """python-number stand-in carrying a z3 Real"""

    def __init__(self, term, expr=None):
        self.t = term if z3.is_expr(term) else z3.RealVal(term)
        self.expr = expr

    @staticmethod
    def lift(x):
        if isinstance(x, SymFloat):
            return x.t
        import fractions
        if isinstance(x, (int, float, fractions.Fraction)):
            from vlib.s2smt import qv
            return qv(x)
        if isinstance(x, sp.Basic):
            return S().z(x)
        raise LiftUnsupported(f"SymFloat with {type(x).__name__}")

    def _bin(self, o, f):
        return SymFloat(f(self.t, SymFloat.lift(o)))

    def __add__(self, o): return self._bin(o, lambda a, b: a + b)
    def __radd__(self, o): return self._bin(o, lambda a, b: b + a)
    def __sub__(self, o): return self._bin(o, lambda a, b: a - b)
    def __rsub__(self, o): return self._bin(o, lambda a, b: b - a)
    def __mul__(self, o): return self._bin(o, lambda a, b: a * b)
    def __rmul__(self, o): return self._bin(o, lambda a, b: b * a)
    def __truediv__(self, o): return self._bin(o, lambda a, b: a / b)
    def __rtruediv__(self, o): return self._bin(o, lambda a, b: b / a)
    def __neg__(self): return SymFloat(-self.t)
    def __pos__(self): return self
    def __abs__(self): return SymFloat(z3.If(self.t >= 0, self.t, -self.t))

    def __bool__(self):
        # truthiness of a number (`x or default`): non-zero
        return bool(SymBool(self.t != 0))

    # the rest of the numeric protocol (a changed code path that uses one of these must stay executable)
    def __floor__(self): return SymFloat(z3.ToReal(z3.ToInt(self.t)))
    def __ceil__(self): return SymFloat(-z3.ToReal(z3.ToInt(-self.t)))
    def __trunc__(self): return SymFloat(z3.If(self.t >= 0, z3.ToReal(z3.ToInt(self.t)), -z3.ToReal(z3.ToInt(-self.t))))
    def __floordiv__(self, o): return SymFloat(z3.ToReal(z3.ToInt(self.t / SymFloat.lift(o))))
    def __rfloordiv__(self, o): return SymFloat(z3.ToReal(z3.ToInt(SymFloat.lift(o) / self.t)))
    def __mod__(self, o):
        b = SymFloat.lift(o)
        return SymFloat(self.t - b * z3.ToReal(z3.ToInt(self.t / b)))

    def __pow__(self, o):
        import fractions
        if isinstance(o, int) and not isinstance(o, bool) and abs(o) <= 8:
            r = z3.RealVal(1)
            for _ in range(abs(o)):
                r = r * self.t
            return SymFloat(r if o >= 0 else 1 / r)
        if isinstance(o, (float, fractions.Fraction)) and fractions.Fraction(o) == fractions.Fraction(1, 2):
            y = S().enc.fresh("sqrt")
            S().enc.side += [y >= 0, y * y == self.t]
            return SymFloat(y)
        raise LiftUnsupported(f"SymFloat ** {o!r}")

    @property
    def real(self): return self

    @property
    def imag(self): return SymFloat(z3.RealVal(0))

    def conjugate(self): return self
    def is_integer(self): return bool(SymBool(z3.ToReal(z3.ToInt(self.t)) == self.t))

    def __round__(self, ndigits=None):
        # round to ndigits decimals: nearest multiple of 10**-ndigits (ties upward; Python's ties-to-even differs on a null set)
        k = z3.RealVal(10 ** int(ndigits or 0))
        return SymFloat(z3.ToReal(z3.ToInt(self.t * k + z3.RealVal("1/2"))) / k)

    def __lt__(self, o): return SymBool(self.t < SymFloat.lift(o))
    def __le__(self, o): return SymBool(self.t <= SymFloat.lift(o))
    def __gt__(self, o): return SymBool(self.t > SymFloat.lift(o))
    def __ge__(self, o): return SymBool(self.t >= SymFloat.lift(o))

    def __eq__(self, o):
        if isinstance(o, LiftedApprox):
            return o.__eq__(self)
        try:
            return SymBool(self.t == SymFloat.lift(o))
        except LiftUnsupported:
            return NotImplemented

    def __ne__(self, o):
        r = self.__eq__(o)
        if r is NotImplemented:
            return r
        return SymBool(z3.Not(r.cond)) if isinstance(r, SymBool) else (not r)

    __hash__ = None

    def __float__(self):
        raise LiftUnsupported("float() of symbolic number")


class SymComplex:
    """python-complex stand-in: a pair of z3 Reals"""

    def __init__(self, re, im):
        self.re, self.im = re, im

    @staticmethod
    def lift(x):
        if isinstance(x, SymComplex):
            return x
        if isinstance(x, SymFloat):
            return SymComplex(x.t, z3.RealVal(0))
        if isinstance(x, complex):
            from vlib.s2smt import qv
            return SymComplex(qv(x.real), qv(x.imag))
        if isinstance(x, sp.Basic) and x.has(sp.I):
            r, i = x.as_real_imag()
            return SymComplex(S().z(r), S().z(i))
        return SymComplex(SymFloat.lift(x), z3.RealVal(0))

    def __add__(self, o):
        o = SymComplex.lift(o)
        return SymComplex(self.re + o.re, self.im + o.im)
    __radd__ = __add__

    def __sub__(self, o):
        o = SymComplex.lift(o)
        return SymComplex(self.re - o.re, self.im - o.im)

    def __rsub__(self, o):
        o = SymComplex.lift(o)
        return SymComplex(o.re - self.re, o.im - self.im)

    def __mul__(self, o):
        o = SymComplex.lift(o)
        return SymComplex(self.re * o.re - self.im * o.im, self.re * o.im + self.im * o.re)
    __rmul__ = __mul__

    def __abs__(self):
        ses = S()
        if z3.is_rational_value(z3.simplify(self.im)) and z3.simplify(self.im).as_fraction() == 0:
            return SymFloat(z3.If(self.re >= 0, self.re, -self.re))          # a real number written as complex(): |x|, no square root needed
        y = ses.enc.fresh("cabs")
        ses.enc.side += [y >= 0, y * y == self.re * self.re + self.im * self.im]
        return SymFloat(y)

    def __eq__(self, o):
        if isinstance(o, LiftedApprox):
            return o.__eq__(self)
        o = SymComplex.lift(o)
        return SymBool(z3.And(self.re == o.re, self.im == o.im))

    __hash__ = None


def lifted_complex_number(value=0, *a):
    """complex() for symbolic scalars inside numeric code (returns a SymComplex)"""
    try:
        v = sp.sympify(value)
        if isinstance(v, sp.Basic) and v.free_symbols and only_vs(v):
            return SymComplex.lift(v if v.has(sp.I) else v + 0 * sp.I) if v.has(sp.I) else SymComplex(S().z(v), z3.RealVal(0))
    except (sp.SympifyError, TypeError):
        pass
    return complex(value, *a)


class LiftedApprox:
    """Model of pytest.approx for scalars (ApproxScalar):
         actual == approx(expected, rel, abs)  <=>  actual == expected  or
                                                    |actual - expected| <= max(rel*|expected|, abs)
       negative tolerances raise ValueError; validated against the real pytest.approx at solver-chosen
       boundary points on every run (checks/c08.py)."""

    def __init__(self, expected, rel=None, abs=None, nan_ok=False):
        from fractions import Fraction
        self.ec = expected if isinstance(expected, SymComplex) else None
        self.e = SymFloat.lift(expected) if self.ec is None else None
        self.rel_given, self.abs_given = rel is not None, abs is not None
        self.rel = SymFloat.lift(rel if rel is not None else Fraction(1, 10**6))
        self.abs = SymFloat.lift(abs if abs is not None else Fraction(1, 10**12))

    def tolerance(self):
        # pytest ApproxScalar.tolerance (finite numbers)
        if bool(SymBool(self.abs < 0)):
            raise ValueError("absolute tolerance can't be negative")
        if not self.rel_given and self.abs_given:
            return self.abs
        ae = z3.If(self.e >= 0, self.e, -self.e) if self.ec is None else abs(self.ec).t
        rt = self.rel * ae
        if bool(SymBool(rt < 0)):
            raise ValueError("relative tolerance can't be negative")
        return z3.If(rt >= self.abs, rt, self.abs)

    def __eq__(self, actual):
        if self.ec is not None or isinstance(actual, SymComplex):
            a = SymComplex.lift(actual)
            e = self.ec if self.ec is not None else SymComplex(self.e, z3.RealVal(0))
            tol = self.tolerance()
            return SymBool(z3.Or(z3.And(a.re == e.re, a.im == e.im), abs(a - e).t <= tol))
        a = SymFloat.lift(actual)
        tol = self.tolerance()
        d = a - self.e
        ad = z3.If(d >= 0, d, -d)
        return SymBool(z3.Or(a == self.e, ad <= tol))

    __hash__ = None


@contextlib.contextmanager
def rebound(*bindings):
    """bindings: (module, name, new_value_or_factory(orig)) ; restored on exit"""
    saved = []
    try:
        for mod, name, new in bindings:
            if isinstance(mod, dict):
                had = name in mod
                old = mod.get(name)
                saved.append((mod, name, had, old))
                mod[name] = new
                continue
            had = name in vars(mod)
            old = vars(mod).get(name)
            saved.append((mod, name, had, old))
            if callable(new) and getattr(new, "_wants_orig", False):
                new = new(old)
            setattr(mod, name, new)
        yield
    finally:
        for mod, name, had, old in reversed(saved):
            if isinstance(mod, dict):
                if had:
                    mod[name] = old
                else:
                    mod.pop(name, None)
            elif had:
                setattr(mod, name, old)
            else:
                delattr(mod, name)


def factory(f):
    f._wants_orig = True
    return f


def standard_bindings():
    """stubs for the dimension core (collect_quantity, dimensions, quantities)"""
    from symplyphysics.core.dimensions import collect_quantity as CQ, dimensions as DM, miscellaneous as MI
    from symplyphysics.core.symbols import quantities as QT
    proxy = DimSysProxy()
    b = [
        (CQ, "dimsys_SI", proxy), (DM, "dimsys_SI", proxy),
        (CQ, "is_any_dimension", factory(lifted_is_any_dimension)), (DM, "is_any_dimension", factory(lifted_is_any_dimension)),
        (CQ, "is_number", factory(lifted_is_number)), (DM, "is_number", factory(lifted_is_number)),
        (QT, "complex", lifted_complex),
    ]
    # numeric builtins in the other core modules a harness executes: the unchanged code may not call them, a changed one may
    # (e.g. a magnitude test through abs(complex(x))); without these a verification scalar would make the call raise TypeError and the
    # path would be mistaken for a refusal
    from symplyphysics.core.vectors import vectors as VV
    from symplyphysics.core import quantity_decorator as QD
    for modx in (VV, QD):
        b += [(modx, "complex", lifted_complex_number), (modx, "float", lifted_float)]
    b += [
        # printing only (error messages, SymPy sort keys): keep Quantity.__str__ off dimension_to_si_unit for symbolic dimensions
        (QT.Quantity, "_sympystr", lambda self, p: str(self.display_name)),
    ]
    return b


STANDARD_STUBS = [
    "dimsys_SI.equivalent_dims / is_dimensionless -> fork on component-wise equality of lifted exponent vectors (collect_quantity, dimensions, collect_expression namespaces)",
    "is_any_dimension(f) -> fork on value(f) == 0 for expressions over verification scalars, original otherwise",
    "is_number(v) -> True for expressions over verification scalars, original otherwise",
    "complex() in core.symbols.quantities namespace -> accepts verification-scalar expressions",
    "Quantity._sympystr -> display name only (formatting is not the subject; avoids SI-unit pretty printing of symbolic dimensions)",
]
