"""Sym2SMT: translate SymPy expressions (as produced by running the real code
on generic symbols) to z3 Real terms with *definitional* side constraints.

Every side constraint is a true fact about the real function it describes, so
`unsat` of  side and domain and lhs != rhs  is a proof of the identity on the
definedness domain.  `sat` may be spurious wherever an abstraction is used
(uninterpreted heads) and is therefore always replayed by the caller.
"""
from __future__ import annotations

import itertools
import time
from fractions import Fraction

import sympy as sp
import z3

from vlib.par import guarded


class Unencodable(Exception):
    pass


PI_LO = z3.Q(3141592653589793238462643383279, 10**30)        # 30 digits: an interval narrower than one double ulp, so that
PI_HI = z3.Q(3141592653589793238462643383280, 10**30)        # "4*pi" and the double 12.566370614359172 stay 1e-16 apart, not 1e-14


def qv(x) -> z3.ArithRef:
    """exact rational -> z3"""
    fr = Fraction(x)
    return z3.Q(fr.numerator, fr.denominator)


class Enc:
    """One encoding context = one family of queries sharing variables."""

    def __init__(self, pi_free: bool = False, name_keyed: bool = False):
        self.vars = {}        # key -> z3 Real
        self.side = []        # definitional constraints (always true facts)
        self.domain = []      # definedness conditions (denominators != 0, radicands >= 0)
        self.assume = []      # caller's assumptions (symbol positivity etc.)
        self.trig = {}        # sympy arg -> (s, c)
        self.roots = {}       # (radicand sympy, q) -> z3 var
        self.apps = {}        # head -> list[(args z3 tuple, var)]
        self.cache = {}
        self.pi = None
        self.pi_free = pi_free
        self.name_keyed = name_keyed
        self.counter = itertools.count()
        self.used_abstraction = False
        self.extra_handlers = []   # callables (enc, expr) -> term or None
        self.use_assumptions = True

    # ---- variables ---------------------------------------------------
    def fresh(self, stem="t"):
        return z3.Real(f"{stem}!{next(self.counter)}")

    def var(self, key, stem=None):
        if key not in self.vars:
            nm = stem or str(key)
            self.vars[key] = z3.Real(f"{nm}#{len(self.vars)}")
        return self.vars[key]

    def sym(self, s: sp.Symbol):
        key = ("sym", s.name if self.name_keyed else s)
        fresh = key not in self.vars
        v = self.var(key, stem=getattr(s, "display_name", None) or s.name)
        if fresh and self.use_assumptions:
            if s.is_positive:
                self.assume.append(v > 0)
            elif s.is_nonnegative:
                self.assume.append(v >= 0)
            if s.is_negative:
                self.assume.append(v < 0)
            elif s.is_nonpositive:
                self.assume.append(v <= 0)
            if s.is_zero is False and not s.is_positive and not s.is_negative:
                self.assume.append(v != 0)
        return v

    def get_pi(self):
        if self.pi is None:
            self.pi = z3.Real("pi")
            if not self.pi_free:
                self.side += [self.pi > PI_LO, self.pi < PI_HI]
            else:
                self.side += [self.pi > 3, self.pi < 4]
        return self.pi

    # ---- main --------------------------------------------------------
    def tr(self, e):
        e = sp.sympify(e)
        try:
            if e in self.cache:
                return self.cache[e]
        except TypeError:
            pass
        t = self._tr(e)
        try:
            self.cache[e] = t
        except TypeError:
            pass
        return t

    def _tr(self, e):
        for h in self.extra_handlers:
            r = h(self, e)
            if r is not None:
                return r
        if e.is_Integer:
            return z3.RealVal(int(e))
        if e.is_Rational:
            return z3.Q(int(e.p), int(e.q))
        if e.is_Float:
            return qv(Fraction(*sp.Rational(e).as_numer_denom()) if False else Fraction(int(sp.Rational(e).p), int(sp.Rational(e).q)))
        if e is sp.pi:
            return self.get_pi()
        if e is sp.E:
            return self.app("exp", (z3.RealVal(1),), positive=True)
        if e in (sp.oo, -sp.oo, sp.zoo, sp.nan, sp.I) or e.has(sp.I):
            raise Unencodable(f"non-real constant {e if e.is_Atom else 'I'}")
        if isinstance(e, sp.Symbol):
            return self.sym(e)
        if isinstance(e, sp.Add):
            return z3.Sum([self.tr(a) for a in e.args])
        if isinstance(e, sp.Mul):
            r = None
            for a in e.args:
                t = self.tr(a)
                r = t if r is None else r * t
            return r
        if isinstance(e, sp.Pow):
            return self.pow(e.base, e.exp)
        if isinstance(e, sp.Abs):
            a = self.tr(e.args[0])
            return z3.If(a >= 0, a, -a)
        if isinstance(e, sp.sign):
            a = self.tr(e.args[0])
            return z3.If(a > 0, z3.RealVal(1), z3.If(a < 0, z3.RealVal(-1), z3.RealVal(0)))
        if isinstance(e, (sp.Max, sp.Min)):
            ts = [self.tr(a) for a in e.args]
            r = ts[0]
            for t in ts[1:]:
                r = z3.If(t >= r, t, r) if isinstance(e, sp.Max) else z3.If(t <= r, t, r)
            return r
        if isinstance(e, sp.Piecewise):
            # last to first
            r = None
            for val, cond in reversed(e.args):
                c = self.cond(cond)
                v = self.tr(val)
                r = v if (r is None and cond is sp.true) else z3.If(c, v, r if r is not None else self.fresh("pw_undef"))
            return r
        if isinstance(e, (sp.sin, sp.cos)):
            s, c = self.sincos(e.args[0])
            return s if isinstance(e, sp.sin) else c
        if isinstance(e, sp.tan):
            s, c = self.sincos(e.args[0])
            self.domain.append(c != 0)
            return s / c
        if isinstance(e, sp.cot):
            s, c = self.sincos(e.args[0])
            self.domain.append(s != 0)
            return c / s
        if isinstance(e, sp.sec):
            s, c = self.sincos(e.args[0])
            self.domain.append(c != 0)
            return 1 / c
        if isinstance(e, sp.csc):
            s, c = self.sincos(e.args[0])
            self.domain.append(s != 0)
            return 1 / s
        if isinstance(e, sp.floor):
            return z3.ToReal(z3.ToInt(self.tr(e.args[0])))
        if isinstance(e, sp.ceiling):
            return -z3.ToReal(z3.ToInt(-self.tr(e.args[0])))
        if isinstance(e, sp.atan2):
            return self.atan2(e.args[0], e.args[1])
        if isinstance(e, sp.acos):
            return self.acos(e.args[0])
        if isinstance(e, sp.asin):
            return self.asin(e.args[0])
        if isinstance(e, sp.atan):
            return self.atan(e.args[0])
        if isinstance(e, sp.exp):
            return self.exp(e.args[0])
        if isinstance(e, sp.log):
            if len(e.args) == 2:
                return self.tr(sp.log(e.args[0]) / sp.log(e.args[1]))
            a = self.tr(e.args[0])
            self.domain.append(a > 0)
            fresh_app = not any(z3.eq(a, a2[0]) for a2, _ in self.apps.get("log", []))
            v = self.app("log", (a,))
            if fresh_app:
                # 1 - 1/x <= log x <= x - 1 (x > 0): keeps the uninterpreted value in the right region
                self.side.append(z3.Implies(a > 0, z3.And(v <= a - 1, v * a >= a - 1)))
            if e.args[0].is_Rational and e.args[0] > 0 and ("logc", e.args[0]) not in self.cache:
                # sound numeric enclosure of the logarithm of a rational constant (30-digit evaluation, 1e-25 relative slack)
                self.cache[("logc", e.args[0])] = True
                val = sp.Rational(str(sp.N(sp.log(e.args[0]), 40)))
                slack = abs(val) * sp.Rational(1, 10**25) + sp.Rational(1, 10**30)
                self.side += [v >= z3.Q(int((val - slack).p), int((val - slack).q)), v <= z3.Q(int((val + slack).p), int((val + slack).q))]
            return v
        if isinstance(e, sp.cosh) or isinstance(e, sp.sinh) or isinstance(e, sp.tanh) or isinstance(e, sp.coth):
            a = e.args[0]
            ep, em = self.exp(a), self.exp(-a)
            if isinstance(e, sp.cosh):
                return (ep + em) / 2
            if isinstance(e, sp.sinh):
                return (ep - em) / 2
            if isinstance(e, sp.tanh):
                return (ep - em) / (ep + em)
            self.domain.append(ep - em != 0)
            return (ep + em) / (ep - em)
        if isinstance(e, sp.Function) or isinstance(e, sp.core.function.AppliedUndef):
            args = tuple(self.tr(a) for a in e.args)
            return self.app(("fn", str(e.func)), args)
        if isinstance(e, sp.Derivative):
            return self.derivative(e)
        if isinstance(e, sp.Subs):
            return self.subs_node(e)
        raise Unencodable(type(e).__name__)

    # ---- conditions --------------------------------------------------
    def cond(self, c):
        if c is sp.true:
            return z3.BoolVal(True)
        if c is sp.false:
            return z3.BoolVal(False)
        if isinstance(c, sp.And):
            return z3.And([self.cond(a) for a in c.args])
        if isinstance(c, sp.Or):
            return z3.Or([self.cond(a) for a in c.args])
        if isinstance(c, sp.Not):
            return z3.Not(self.cond(c.args[0]))
        if isinstance(c, sp.core.relational.Relational):
            l, r = self.tr(c.lhs), self.tr(c.rhs)
            op = c.rel_op
            return {"==": l == r, "!=": l != r, "<": l < r, "<=": l <= r, ">": l > r, ">=": l >= r}[op]
        raise Unencodable(f"cond {type(c).__name__}")

    # ---- powers and roots -------------------------------------------
    def pow(self, base, exp):
        if not exp.is_Rational and not exp.is_Float and exp.is_number and not exp.free_symbols and not exp.has(sp.pi, sp.E, sp.I):
            # a constant written unevaluated (root(x, 4) under evaluate(False) is x**(4**-1)): the rational it denotes
            try:
                ev = exp.doit()
                if ev.is_Rational:
                    exp = ev
            except Exception:
                pass
        if exp.is_Float:
            r = sp.nsimplify(exp, rational=True)
            if r.is_Rational and int(r.q) <= 16 and abs(int(r.p)) <= 64 and sp.Float(r, 30) == sp.Float(exp, 30):
                exp = r          # 0.5, 1.5, 2.0 written as floats
        if (exp.is_Integer and abs(int(exp)) > 64) or (exp.is_Rational and not exp.is_Integer and (abs(int(exp.p)) > 64 or int(exp.q) > 16)):
            # huge exponents / binary floats as exponents: uninterpreted power keyed on (base, exponent)
            b = self.tr(base)
            self.domain.append(b > 0)
            self.used_abstraction = True
            return self.app("pow", (b, self.tr(exp)), positive=True)
        if exp.is_Integer:
            n = int(exp)
            b = self.tr(base)
            if n >= 0:
                return self.ipow(b, n)
            self.domain.append(b != 0)
            return 1 / self.ipow(b, -n)
        if exp.is_Rational:
            p, q = int(exp.p), int(exp.q)
            y = self.root(base, q)
            if p >= 0:
                return self.ipow(y, p)
            self.domain.append(y != 0)
            return 1 / self.ipow(y, -p)
        if base is sp.E:
            return self.exp(exp)
        # general power  b**x = exp(x log b), b > 0
        b = self.tr(base)
        x = self.tr(exp)
        self.domain.append(b > 0)
        self.used_abstraction = True
        return self.app("pow", (b, x), positive=True)

    @staticmethod
    def ipow(b, n):
        if n == 0:
            return z3.RealVal(1)
        r = b
        for _ in range(n - 1):
            r = r * b
        return r

    def root(self, base, q):
        key = (base, q)
        if key in self.roots:
            return self.roots[key]
        b = self.tr(base)
        y = self.fresh(f"root{q}")
        if q % 2 == 0:
            self.domain.append(b >= 0)
            self.side += [y >= 0, self.ipow(y, q) == b]
        else:
            # sympy's principal odd root of a negative number is complex: restrict to b >= 0
            self.domain.append(b >= 0)
            self.side += [y >= 0, self.ipow(y, q) == b]
        self.roots[key] = y
        return y

    # ---- uninterpreted applications (Ackermann) ---------------------
    def app(self, head, args, positive=False):
        lst = self.apps.setdefault(head, [])
        for a2, v2 in lst:
            if len(a2) == len(args) and all(z3.eq(x, y) for x, y in zip(a2, args)):
                return v2
        v = self.fresh(head if isinstance(head, str) else str(head[1]))
        for a2, v2 in lst:
            if len(a2) == len(args):
                self.side.append(z3.Implies(z3.And([x == y for x, y in zip(a2, args)]), v == v2))
        if head in ("log", "exp") and len(lst) < 6:
            # continuity beyond congruence (two logarithms whose arguments differ by float rounding must nearly agree):
            # log t <= t - 1 at t = x/y and t = y/x;  exp t >= 1 + t at t = a - b and t = b - a.  Both are theorems.
            x = args[0]
            for (y,), w in lst:
                if head == "log":
                    self.side += [z3.Implies(z3.And(x > 0, y > 0), z3.And((v - w) * y <= x - y, (w - v) * x <= y - x))]
                else:
                    self.side += [v >= w * (1 + x - y), w >= v * (1 + y - x)]
        lst.append((args, v))
        if positive:
            self.side.append(v > 0)
        if head not in ("exp", "log"):
            self.used_abstraction = True
        return v

    def exp(self, arg):
        arg = sp.sympify(arg)
        key = ("exp", arg)
        if key in self.cache:
            return self.cache[key]
        a = self.tr(arg)
        v = self.app("exp", (a,), positive=True)
        self.cache[key] = v
        # exp(a+b) = exp(a) exp(b), exp(n a) = exp(a)^n, exp(-a) = 1/exp(a), exp(log x) = x
        if isinstance(arg, sp.Add):
            parts = [self.exp(p) for p in arg.args]
            r = parts[0]
            for p in parts[1:]:
                r = r * p
            self.side.append(v == r)
        elif isinstance(arg, sp.Mul):
            c, rest = arg.as_coeff_Mul()
            if c.is_Integer and c != 1 and abs(int(c)) <= 6:
                er = self.exp(rest)
                n = int(c)
                self.side.append(v == self.ipow(er, n) if n > 0 else v * self.ipow(er, -n) == 1)
            elif c.is_Rational and c != 1 and abs(int(c.p)) <= 6 and int(c.q) <= 6:
                er = self.exp(rest)
                p, q = int(c.p), int(c.q)
                # v^q = er^p
                self.side.append(self.ipow(v, q) == self.ipow(er, p) if p > 0 else self.ipow(v, q) * self.ipow(er, -p) == 1)
        elif isinstance(arg, sp.log) and len(arg.args) == 1:
            self.side.append(v == self.tr(arg.args[0]))
        elif arg == 0:
            self.side.append(v == 1)
        self.used_abstraction = True
        return v

    # ---- trigonometry -----------------------------------------------
    def sincos(self, arg):
        arg = sp.sympify(arg)
        if arg in self.trig:
            return self.trig[arg]
        if arg == 0:
            self.trig[arg] = (z3.RealVal(0), z3.RealVal(1))
            return self.trig[arg]
        # multiples of pi/2 .. handled by sympy normally
        c0, rest = arg.as_coeff_Mul() if not isinstance(arg, sp.Add) else (sp.S.One, arg)
        if isinstance(arg, sp.Add):
            a, b = arg.args[0], sp.Add(*arg.args[1:])
            sa, ca = self.sincos(a)
            sb, cb = self.sincos(b)
            s, c = self.fresh("sin"), self.fresh("cos")
            self.side += [s == sa * cb + ca * sb, c == ca * cb - sa * sb, s * s + c * c == 1]
            self.trig[arg] = (s, c)
            return s, c
        if c0.is_Integer and c0 != 1 and abs(int(c0)) <= 4:
            n = int(c0)
            s1, c1 = self.sincos(rest)
            if n < 0:
                sn, cn = self.sincos(-arg)
                self.trig[arg] = (-sn, cn)
                return self.trig[arg]
            # n >= 2 : recurrence
            sp_, cp_ = self.sincos((n - 1) * rest)
            s, c = self.fresh("sin"), self.fresh("cos")
            self.side += [s == sp_ * c1 + cp_ * s1, c == cp_ * c1 - sp_ * s1, s * s + c * c == 1]
            self.trig[arg] = (s, c)
            return s, c
        if c0.is_Rational and c0 < 0:
            sn, cn = self.sincos(-arg)
            self.trig[arg] = (-sn, cn)
            return self.trig[arg]
        if c0 == sp.Rational(1, 2):
            # half angle: define through the double-angle relation
            s, c = self.fresh("sin"), self.fresh("cos")
            self.trig[arg] = (s, c)
            self.side.append(s * s + c * c == 1)
            if rest in self.trig or True:
                s2, c2 = self.sincos(rest)
                self.side += [s2 == 2 * s * c, c2 == c * c - s * s]
            return s, c
        # inverse-trig arguments: the angle object carries its own pair
        if isinstance(arg, (sp.atan2, sp.acos, sp.asin, sp.atan)):
            self.tr(arg)
            if arg in self.trig:
                return self.trig[arg]
        a = self.tr(arg)  # make sure the argument itself is encodable (and shares variables)
        s, c = self.fresh("sin"), self.fresh("cos")
        self.side.append(s * s + c * c == 1)
        # congruence with other trig args proved equal by value
        for other, (so, co) in list(self.trig.items()):
            try:
                ot = self.cache.get(other)
            except TypeError:
                ot = None
            if ot is not None and not z3.is_rational_value(ot):
                self.side.append(z3.Implies(a == ot, z3.And(s == so, c == co)))
                self.side.append(z3.Implies(a == -ot, z3.And(s == -so, c == co)))
        self.trig[arg] = (s, c)
        return s, c

    def atan2(self, y, x):
        key = sp.atan2(y, x, evaluate=False)
        yt, xt = self.tr(y), self.tr(x)
        th = self.fresh("atan2")
        s, c, rho = self.fresh("sin"), self.fresh("cos"), self.fresh("rho")
        pi = self.get_pi()
        self.domain.append(z3.Or(xt != 0, yt != 0))
        self.side += [s * s + c * c == 1, rho > 0, rho * rho == xt * xt + yt * yt,
                      c * rho == xt, s * rho == yt, th > -pi, th <= pi,
                      # sign facts tying the angle to its sine/cosine
                      z3.Implies(s > 0, z3.And(th > 0, th < pi)), z3.Implies(s < 0, z3.And(th < 0)),
                      z3.Implies(z3.And(s == 0, c > 0), th == 0), z3.Implies(z3.And(s == 0, c < 0), th == pi),
                      z3.Implies(c > 0, z3.And(th > -pi / 2, th < pi / 2)),
                      z3.Implies(c == 0, z3.Or(th == pi / 2, th == -pi / 2))]
        self.trig[key] = (s, c)
        self.trig[sp.atan2(y, x)] = (s, c)
        self.cache[key] = th
        self.angle_vars = getattr(self, "angle_vars", []) + [(th, s, c)]
        return th

    def acos(self, u):
        key = sp.acos(u, evaluate=False)
        ut = self.tr(u)
        ph = self.fresh("acos")
        s, c = self.fresh("sin"), self.fresh("cos")
        pi = self.get_pi()
        self.domain += [ut >= -1, ut <= 1]
        self.side += [s * s + c * c == 1, c == ut, s >= 0, ph >= 0, ph <= pi,
                      z3.Implies(c == 1, ph == 0), z3.Implies(c == -1, ph == pi),
                      z3.Implies(c == 0, ph == pi / 2),
                      z3.Implies(s > 0, z3.And(ph > 0, ph < pi))]
        self.trig[key] = (s, c)
        self.trig[sp.acos(u)] = (s, c)
        self.cache[key] = ph
        self.angle_vars = getattr(self, "angle_vars", []) + [(ph, s, c)]
        return ph

    def asin(self, u):
        key = sp.asin(u, evaluate=False)
        ut = self.tr(u)
        ph = self.fresh("asin")
        s, c = self.fresh("sin"), self.fresh("cos")
        pi = self.get_pi()
        self.domain += [ut >= -1, ut <= 1]
        self.side += [s * s + c * c == 1, s == ut, c >= 0, ph >= -pi / 2, ph <= pi / 2,
                      z3.Implies(s == 0, ph == 0), z3.Implies(s > 0, ph > 0), z3.Implies(s < 0, ph < 0)]
        self.trig[key] = (s, c)
        self.trig[sp.asin(u)] = (s, c)
        self.cache[key] = ph
        self.angle_vars = getattr(self, "angle_vars", []) + [(ph, s, c)]
        return ph

    def atan(self, u):
        key = sp.atan(u, evaluate=False)
        ut = self.tr(u)
        ph = self.fresh("atan")
        s, c = self.fresh("sin"), self.fresh("cos")
        pi = self.get_pi()
        self.side += [s * s + c * c == 1, c > 0, s == ut * c, ph > -pi / 2, ph < pi / 2,
                      z3.Implies(s == 0, ph == 0), z3.Implies(s > 0, ph > 0), z3.Implies(s < 0, ph < 0)]
        self.trig[key] = (s, c)
        self.trig[sp.atan(u)] = (s, c)
        self.cache[key] = ph
        self.angle_vars = getattr(self, "angle_vars", []) + [(ph, s, c)]
        return ph

    def bind_angle(self, sym: sp.Symbol, lo=None, hi=None, lo_strict=True, hi_strict=False):
        """Declare symbol `sym` to be an angle with its own (sin, cos) pair."""
        v = self.sym(sym)
        s, c = self.sincos(sym)
        self.angle_vars = getattr(self, "angle_vars", []) + [(v, s, c)]
        return v, s, c

    def angle_equal_lemmas(self):
        """True lemma: two angles in a common half-open interval of length 2 pi
        with equal (sin, cos) are equal.  Instantiated for all pairs of angle
        variables; the caller is responsible for ranges being asserted."""
        out = []
        av = getattr(self, "angle_vars", [])
        pi = self.get_pi()
        for (a, sa, ca), (b, sb, cb) in itertools.combinations(av, 2):
            out.append(z3.Implies(z3.And(sa == sb, ca == cb, a - b < 2 * pi, b - a < 2 * pi,
                                         # both in (-pi, pi]
                                         a > -pi, a <= pi, b > -pi, b <= pi), a == b))
        return out

    # ---- jets --------------------------------------------------------
    def derivative(self, e: sp.Derivative):
        f = e.expr
        if not isinstance(f, sp.core.function.AppliedUndef):
            raise Unencodable("Derivative of non-undefined function")
        # multi-index relative to argument positions; arguments must be the differentiation symbols
        idx = [0] * len(f.args)
        for v, n in e.variable_count:
            pos = [i for i, a in enumerate(f.args) if a == v]
            if len(pos) != 1:
                raise Unencodable("Derivative wrt non-argument")
            idx[pos[0]] += int(n)
        args = tuple(self.tr(a) for a in f.args)
        return self.app(("jet", str(f.func), tuple(idx)), args)

    def subs_node(self, e: sp.Subs):
        inner, olds, news = e.args
        if isinstance(inner, sp.Derivative) and isinstance(inner.expr, sp.core.function.AppliedUndef):
            f = inner.expr
            m = dict(zip(olds, news))
            idx = [0] * len(f.args)
            for v, n in inner.variable_count:
                pos = [i for i, a in enumerate(f.args) if a == v]
                if len(pos) != 1:
                    raise Unencodable("Subs/Derivative wrt non-argument")
                idx[pos[0]] += int(n)
            args = tuple(self.tr(a.xreplace(m)) for a in f.args)
            return self.app(("jet", str(f.func), tuple(idx)), args)
        raise Unencodable("Subs")


# ----------------------------------------------------------------------
class Query:
    """Discharge  assume and side and domain and goal_negation  with z3 (nlsat),
    cvc5 as second opinion on unknown."""

    def __init__(self, ctx=None, timeout_ms=10000):
        self.ctx = ctx
        self.timeout_ms = timeout_ms

    def check(self, constraints, timeout_ms=None):
        s = z3.Solver()
        s.set("timeout", timeout_ms or self.timeout_ms)
        for c in constraints:
            s.add(c)
        t0 = time.time()
        with guarded("z3 check (Query)"):
            r = s.check()
        dt = time.time() - t0
        if self.ctx is not None:
            self.ctx.add_solver(1, dt)
        res = str(r)
        model = s.model() if res == "sat" else None
        why_unknown = ""
        if res == "unknown":
            try:
                why_unknown = str(s.reason_unknown())
            except Exception:
                why_unknown = ""
        # second strategy only where the first one gave up for a reason other than time: after a timeout the explicit nlsat tactic
        # would most likely time out too, and its polynomial factorisation has been seen to ignore the time limit altogether
        if res == "unknown" and "timeout" not in why_unknown and "cancel" not in why_unknown:
            # second strategy: explicit nlsat tactic
            try:
                t = z3.Then("simplify", "purify-arith", "propagate-values", "solve-eqs", "qfnra-nlsat").solver()
                t.set("timeout", timeout_ms or self.timeout_ms)
                for c in constraints:
                    t.add(c)
                t0 = time.time()
                with guarded("z3 nlsat tactic (Query)"):
                    r2 = t.check()
                if self.ctx is not None:
                    self.ctx.add_solver(1, time.time() - t0)
                if str(r2) != "unknown":
                    res = str(r2)
                    model = t.model() if res == "sat" else None
            except z3.Z3Exception:
                pass
        return res, model


def model_value(model, term, prec=30):
    """Evaluate z3 term under model to a python Fraction/float."""
    v = model.eval(term, model_completion=True)
    if z3.is_rational_value(v):
        return Fraction(v.numerator_as_long(), v.denominator_as_long())
    if z3.is_algebraic_value(v):
        a = v.approx(prec)
        return Fraction(a.numerator_as_long(), a.denominator_as_long())
    raise ValueError(f"cannot evaluate {v}")


def prove_equal(enc: Enc, lhs, rhs, q: Query, extra=(), rel_eps=None):
    """Returns (verdict, model) where verdict in unsat/sat/unknown for the
    NEGATED identity lhs == rhs on the common definedness domain."""
    l = enc.tr(lhs) if not z3.is_expr(lhs) else lhs
    r = enc.tr(rhs) if not z3.is_expr(rhs) else rhs
    cons = list(enc.assume) + list(enc.side) + list(enc.domain) + list(extra)
    if rel_eps is None:
        cons.append(l != r)
    else:
        d = l - r
        ad = z3.If(d >= 0, d, -d)
        al = z3.If(l >= 0, l, -l)
        ar = z3.If(r >= 0, r, -r)
        cons.append(ad > qv(rel_eps) * (al + ar))
    return q.check(cons)
