#!/usr/bin/env python3
"""Write seeded/<id>/meta.json from what tools/confirm_seed.sh recorded (confirm.json), the sub-agent's notes.md and the patch.
Existing meta.json files are rewritten only with --force."""
import glob
import json
import os
import re
import sys

ROOT = os.path.join(os.path.dirname(os.path.abspath(__file__)), "..", "seeded")
force = "--force" in sys.argv


def section(notes, *heads):
    """text under the first markdown heading whose title contains one of `heads`"""
    lines = notes.splitlines()
    for i, l in enumerate(lines):
        if l.startswith("#") and any(h in l.lower() for h in heads):
            body = []
            for m in lines[i + 1:]:
                if m.startswith("#"):
                    break
                body.append(m)
            return re.sub(r"\s+", " ", " ".join(body)).strip()[:600]
    return ""


for d in sorted(glob.glob(os.path.join(ROOT, "C*"))):
    mp = os.path.join(d, "meta.json")
    cp = os.path.join(d, "confirm.json")
    if not os.path.exists(cp) or (os.path.exists(mp) and not force):
        continue
    c = json.load(open(cp))
    notes = open(os.path.join(d, "notes.md")).read() if os.path.exists(os.path.join(d, "notes.md")) else ""
    patch = open(os.path.join(d, "patch.diff")).read()
    files = sorted(set(re.findall(r"^\+\+\+ b/(\S+)", patch, re.M)))
    meta = {
        "id": c["id"],
        "breaks_property": c["property"],
        "round": 7 if "r7" in c["id"] else 6 if "r6" in c["id"] else 5 if "r5" in c["id"] else 4 if "r4" in c["id"] else 3 if "r3" in c["id"] else 2 if "r2" in c["id"] else 1,
        "files_changed": files,
        "needs_to_manifest": section(notes, "needs to manifest", "manifest", "condition") or section(notes, "why it breaks"),
        "origin": "written by a fresh sub-agent that was given only the text of the property and its own scratch git worktree of /repo",
        "confirmation": {
            "repo_head_when_confirmed": c["repo_head"],
            "patch_applied_cleanly": bool(c["patch_applied"]),
            "existing_suite_with_patch": c["suite_with_patch"],
            "demo_exit_with_patch": c["demo_exit_mutated"],
            "demo_exit_without_patch": c["demo_exit_clean"],
            "commands": c["ran"],
        },
        "rebased_patch": "patch_rebased.diff" if os.path.exists(os.path.join(d, "patch_rebased.diff")) else None,
        "detection": "see seeded/RESULTS.json (written by tools/seed_matrix.sh) and DESIGN.md section 6.6",
    }
    json.dump(meta, open(mp, "w"), indent=1)
    print("wrote", mp)
