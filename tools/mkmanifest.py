#!/usr/bin/env python3
"""Regenerates /verif/MANIFEST.json from the table below (single source of truth)."""
import json
import os

ROOT = os.path.dirname(os.path.dirname(os.path.abspath(__file__)))

# id -> (engine, category, technique, level text, level note, design ref)
CHECKS = {
    "C10": ("S", "other",
            "symbolic execution of the real vector functions on generic real components + z3 QF_NRA (unsat of the negated law), lengths 0..3 enumerated",
            "Every algebraic law of the statement is decided by z3 for ALL real component values, for every operand-length combination 0..3; refusals are enumerated over all system kinds/instances. Bounded-complete within those bounds, not a proof about other lengths.",
            "Trusted: z3 nlsat, SymPy's Add/Mul normalisation of the symbolic components, the Sym2SMT translator. Complex components outside.",
            "3.10"),
    "C14": ("S", "other",
            "real simplifier run on enumerated expression shapes; result vs textbook component meaning compared by z3 QF_NRA over all real 3-vectors",
            "For every shape within the depth bound the equality result==meaning is decided for ALL real assignments (unsat), for auto-evaluation, doit() and d/dt; all slot assignments of 4 symbols realise all id() orders. Shapes beyond the bound are outside the claim.",
            "Trusted: z3 nlsat, SymPy core arithmetic, vlib/vecsem.py component semantics. A model that does not reproduce on the real code is counted inconclusive (SPURIOUS).",
            "3.14"),
    "C20": ("S", "other",
            "exact rational arithmetic in z3 over the real constants table with pi quantified over a rational interval; finite table enumerated completely",
            "Finite table decided exhaustively: dimension vectors, SI values within stated tolerance of CODATA/IAU references, and the seven identities, for every pi in a 1e-14-wide interval.",
            "Trusted: refs/constants.json reference values, sympy dimsys_SI, z3. Constants without a reference entry are reported inconclusive.",
            "3.20"),
    "C04": ("L", "other",
            "lifted native execution of the real gate/decorators over symbolic scale factors and 8-exponent dimension vectors (z3 Reals), per-path assertion + path-cover check by z3; catalogue binding by solver-chosen wrong dimensions replayed on the real functions",
            "Parts A/B: for every path of the real assert_equivalent_dimension / validate_input / validate_output / QuantityVector.__init__ z3 decides that the outcome equals the gate predicate of the statement for ALL scale factors and ALL real exponent vectors, and that the explored paths cover the input space. Part C is per-function binding evidence (one solver-chosen wrong dimension per guarded parameter, executed concretely).",
            "Trusted: z3, the listed stubs of vlib/lift.py (dimsys_SI predicates, is_any_dimension/is_number on symbolic scalars), sympy's get_dimensional_dependencies for concrete dimensions. Reals stand in for floats; a float 0.0 is covered by a concrete enumeration.",
            "3.4"),
    "C05": ("L", "other",
            "lifted native execution of the real Quantity constructor/collectors on enumerated expression trees with symbolic scale factors and dimension vectors; every path compared by z3 with the statement's compositional semantics; path-cover check",
            "For every tree within the bound (<=3 leaves quick, <=4 thorough; depth<=2, sampled depth 3) z3 decides for ALL leaf values and ALL leaf dimensions that acceptance <=> well-formedness and that the returned scale factor and dimension equal the value and dimensional product.",
            "Trusted: z3, vlib/qspec.py (semantics written from the statement), vlib/lift.py stubs, SymPy's canonicalisation of the input tree. Finite reals only; infinite/NaN leaves and complex factors are outside.",
            "3.5"),
    "C06": ("L", "other",
            "lifted native execution of the real symbolic-inference collectors on enumerated trees over symbols with symbolic declared dimensions; per-path z3 assertion against the statement's compositional semantics, Sym2SMT value-equality, lifted commuting diagram with the quantity collector",
            "For every tree within the bound z3 decides for ALL declared dimension vectors and ALL quantity values that inference accepts exactly the well-formed inputs, returns the compositional dimension and a value-equal expression, and that substituting non-zero quantities gives the same dimension through the real quantity collector.",
            "Trusted: z3, vlib/qspec.ispec, vlib/lift.py stubs. Zero-ness that is semantic rather than literal (0**x bases, cancelling nested sums, zero-valued dimensional exponents) is excluded by stated assumptions; infinite/NaN literals are checked on a finite concrete list.",
            "3.6"),
    "C08": ("L", "other",
            "lifted native execution of the real assert_equal/approx_equal_* over symbolic real and imaginary parts, tolerances and dimension vectors (z3 Reals); per-path z3 assertion of the statement's clauses; pytest.approx replaced by a validated ApproxScalar model",
            "For ALL real/complex operands, ALL non-negative tolerances and ALL dimension vectors z3 decides on every path of the real oracle: pass => equivalent dimensions and both parts within the larger tolerance; within the stated tolerance => pass; symmetry without absolute tolerance; bare numbers need an explicit dimension; vectors component-wise with equal lengths (0..3).",
            "Trusted: z3, the ApproxScalar model (checked against the real pytest.approx on solver-chosen points each run), vlib/lift.py stubs. Reals stand in for doubles: a relative margin of 1e-9 around the tolerance boundary is outside the claim; NaN/inf operands are outside.",
            "3.8"),
    "C07": ("L", "other",
            "lifted native execution of the real conversion functions over symbolic values, unit scales and dimension vectors (z3 Reals); per-path assertions; finite catalogue of dimensions for the SI-unit map; z3 QF_FP for the Celsius round trip on doubles (thorough)",
            "convert_to: for ALL values, unit scales and real dimension vectors the result n satisfies n*unit == value exactly when the dimensions are equivalent; composition and identity for all values; convert_to_si and evaluate_expression for all values over the finite set of catalogue dimensions / bounded trees; prefix table and Celsius helpers exactly (reals) and bit-precisely (doubles, |x| <= 1e9, thorough tier).",
            "Trusted: z3 (QF_NRA, QF_FP), sympy dimsys_SI, vlib/lift.py stubs. Float rounding is modelled only in the Celsius kernel.",
            "3.7"),
    "C12": ("S", "other",
            "real operators executed on generic undefined fields; SymPy derivatives mapped to jet variables; identities and agreement with rotated Cartesian operators decided by z3 (QF_NRA with sin/cos pairs)",
            "For ALL smooth fields (free 1st/2nd-order jets) and ALL points of the domain z3 decides curl grad = 0, div curl = 0, zero-padding, and equality of the cylindrical/spherical gradient, divergence and curl with the Cartesian ones in the local orthonormal basis.",
            "Trusted: z3 nlsat, SymPy's diff/chain rule, the textbook transformation and rotation matrices in checks/c12.py. Singular points (r = 0, sin(phi) = 0) and phi = pi/2 (code divides by tan) are outside.",
            "3.12"),
    "C15": ("S", "other",
            "real conversion tables executed on symbolic points/components; sqrt/atan2/sin/cos translated with definitional axioms; identities decided by z3 (QF_NRA) over each system's whole domain",
            "For ALL points of each system's domain and ALL vector components z3 decides: scalar round trips (6 pairs), direct = via third system (6 triples), M M^T = I, det M = 1, reverse = inverse, base vectors = textbook local basis = normalised position derivatives (Lame coefficients), convert_point / convert_vector preserve Cartesian position / components.",
            "Trusted: z3 nlsat, the sound trig/atan2 axioms of vlib/s2smt.py, the textbook position maps and bases in checks/c15.py. Polar axis, origin and angles outside the principal ranges are outside.",
            "3.15"),
    "C11": ("S", "other",
            "real rebase / curvilinear arithmetic / field rebase executed on symbolic components, points and an uninterpreted field; sqrt/atan2/acos/sin/cos translated with definitional axioms; identities decided by z3 (QF_NRA); refusals enumerated",
            "For ALL vectors and points away from the singularities z3 decides both round trips for both pairs, that curvilinear dot product, magnitude and scaling equal the Cartesian ones, and that a rebased scalar field has the same value at the same physical point (both directions, principal ranges); the finite set of refusal combinations is enumerated completely.",
            "Trusted: z3 nlsat, the sound trig axioms of vlib/s2smt.py, sympy.vector.express, the textbook position maps in checks/c11.py. Singular points and non-principal angles are outside.",
            "3.11"),
    "C13": ("S", "other",
            "real integral helpers (SymPy integrate/simplify inside) executed on generic polynomial fields with one symbolic coefficient per monomial; both sides of each theorem compared by z3 as polynomial identities in coefficients, sizes and pi (free)",
            "For ALL polynomial fields up to the stated degree and ALL region sizes z3 decides Stokes (circle, ellipse, rectangle, disc as Cartesian region), Green (same, plus left-handed parameter order) and Gauss (box) and independence of parametrisation speed / sign change under reversal; every result must be free of coordinate variables.",
            "Trusted: z3 nlsat. SymPy's integrate/simplify are part of the code under test. Non-polynomial fields and other regions are outside.",
            "3.13"),
    "C16": ("S", "other",
            "real solve_for_vector / solve_for_scalar / apply executed on enumerated vector equations with symbolic coefficients; equivalence with the input decided by z3 over all real 3-vectors and scalars (component semantics)",
            "For every equation within the bound and every choice of unknown z3 decides for ALL real 3-vectors and scalar values that the returned equation differs from the input expression by exactly the isolated non-zero coefficient (or sign, with reduction off) and that refusals are exactly the requests for non-terms.",
            "Trusted: z3 nlsat, vlib/vecsem.py. solve_for_scalar rests on sympy.solve whose answers are judged; equations SymPy cannot solve are inconclusive.",
            "3.16"),
    "C17": ("S", "other",
            "real code_str executed on enumerated canonical trees and on every catalogue member in documentation source form; rendering read back by an independent precedence parser; value equality decided by z3 (QF_NRA) over all positive leaf values",
            "For every canonical tree within the bound and every documented catalogue formula z3 decides that the value of the rendering, read under ordinary precedence with name-aware tokenisation, equals the value of the original for ALL positive real values of the leaves (opaque heads and float literals are named leaves).",
            "Trusted: z3 nlsat, vlib/exprparse.py (the reader), SymPy arithmetic when rebuilding the read expression. Renderings outside the reader's grammar are inconclusive, never passed. Fully unevaluated synthetic trees are outside the property's quantifier (observation in DESIGN.md).",
            "3.17"),
    "C18": ("S", "other",
            "real latex_str on enumerated canonical trees and every catalogue member in source form; lexical well-formedness scan of every rendering; rendering read back by an independent LaTeX reader; value equality decided by z3 (QF_NRA)",
            "Well-formedness (balanced braces, matched delimiters/environments) is checked lexically on every rendering (no solver). For every rendering inside the reader's grammar z3 decides that its value equals the original's for ALL positive real leaf values.",
            "Trusted: z3 nlsat, vlib/latexparse.py, SymPy arithmetic. Renderings outside the reader's grammar are inconclusive for meaning (counted), never passed. Unevaluated synthetic trees are outside the property's quantifier.",
            "3.18"),
    "C01": ("D", "other",
            "independent walker over the real equation objects emitting linear constraints on dimension-exponent vectors (wildcards existential, symbolic exponents as atoms); z3 QF_LRA per equation with unsat cores",
            "Every public equation of every catalogue module is decided: the linear system of dimensional requirements is satisfiable (homogeneous for every value of the symbols, wildcards chosen existentially) or z3's unsat core names the conflicting sub-terms. Exhaustive over the catalogue; node types outside the rule list are reported unencoded.",
            "Trusted: z3 QF_LRA, sympy get_dimensional_dependencies on declared dimensions, the rule set of vlib/dimlra.py (DESIGN 3.1).",
            "3.1"),
    "C02": ("L+S", "other",
            "every calculate_* function called through its validators on quantities with symbolic scale factors (lifted native execution, forks at comparisons/zero tests); returned expression substituted into the module's published equation; residual decided by z3 (QF_NRA) over all magnitudes",
            "For each function that survives lifted execution (counted; the rest is listed unencoded with the reason) z3 decides on every path that the returned value satisfies the published law for ALL magnitudes of the arguments in the domain (positive reals in the quick tier; all reals in the thorough tier), magnitude/ceiling results being judged on their argument.",
            "Trusted: z3 nlsat, Sym2SMT, vlib/lift.py stubs incl. Quantity._eval_is_positive and float(); SymPy solve/subs run as part of the code under test. Float literals are read as the short rationals (or rational multiples of pi) they were written as. Laws about functions (derivative/integral/two-instant forms) are read through the samples the decorators declare (straight line through two samples; slopes from *_change_ pairs): other function-valued laws and integer parameters are unencoded. Laws written as a sum over an index whose function takes the terms as one sequence: lists of 1-4 lifted quantities against the sum written out (checks/c02_seqlaws.py). Every judged call comes after an ordinary call with other arguments; the published equations are compared before and after it. Vector modules: mutual-inverse pairs of *_law functions and calculate_* wrappers against their law function on symbolic 3-vectors (non-zero components); the two Maxwell curl modules (field arguments) against each other and the textbook curl (checks/c02_fieldlaws.py). Laws with an argument-dependent exponent are NOT decided (spurious models; three concrete probe points with double-like magnitudes are replayed instead, a failing one is reported, holding ones decide nothing). Complex-valued laws: real and imaginary part of the residual. A coverage floor (refs/coverage_floor.json) turns a silent loss of encoded obligations into a harness error.",
            "3.2"),
    "C09": ("X", "other",
            "CrossHair symbolic execution (z3) of the real id/name/subscript/clone helpers over symbolic ints, strings and Optional[bool] flags, with refuted-twin vacuity guards; constructors exercised concretely at digit-boundary counter states",
            "O1-O3 are confirmed over all paths by CrossHair within the stated bounds (counters unbounded, ids < 10^6, strings <= 2-3 chars), which gives the inductive step 'a newly minted name differs from every earlier one' for every creation history in the bound; O4/O5 (constructors use the minted name, no aliasing under subs/diff/solve, printers show display names) are concrete runs and say so.",
            "Trusted: CrossHair's str/int models, z3, SymPy's rule that differently named symbols are different. The 'never affects another' clause is reduced to name distinctness; Symbolic wrappers are outside the property's list.",
            "3.9"),
    "C19": ("L+X", "other",
            "z3 over the evaluation flag as a symbolic Bool through the real disable/reset functions along each page's real patch trace (inductive over page orders); CrossHair on _find_law_directives; one concrete generation run for totality/faithfulness/determinism",
            "Partial. Solver-decided: the flag invariant for every page and every initial value (hence every generation order), well-nestedness of the real patcher's output on every module, directive location on symbolic docstrings. NOT solver-decided (stated): totality, one page per module, placeholder substitution by the module's own renderings, symbol tables and determinism come from one real generate_laws_docs run over the working tree (twice).",
            "Trusted: z3, CrossHair, the independent expectation of documented members read from the unpatched source. Sphinx build and role resolution are outside.",
            "3.19"),
    "C03": ("LIA+replay", "other",
            "z3 (LIA encoding of decimal-string order, self-validated) enumerates with blocking clauses every order type of a module's id block against itself and the pool ids it touches until unsat (cover proof); each representative history is replayed in a fresh process against the default history",
            "Partial. The solver proves that the replayed counter states represent every history within the bound (ids < 10^7, one joint offset, dependencies fresh) up to the stated order features; the per-history verdict (import succeeds with its derivation asserts, same meaning of every public equation, same calculate_* values) is by concrete replay. Quick tier: modules touched by the working tree/last commit plus a seed-chosen sample; thorough: all modules.",
            "Assumes a module's behaviour depends on the history only through SymPy's ordering of generated names; string-hash order, SymPy cache state and dependencies imported earlier at unrelated offsets are outside.",
            "3.3"),
}

NOT_APPLICABLE = {
}

PENDING = "check not landed yet in this revision (work in progress; see DESIGN.md section 3 for the planned solver-based obligation)"


def main():
    props = [json.loads(l) for l in open(os.path.join(ROOT, "properties.jsonl"))]
    checks = []
    na = []
    for p in props:
        pid = p["id"]
        if pid in CHECKS:
            eng, cat, tech, text, note, ref = CHECKS[pid]
            checks.append({
                "property_id": pid,
                "quick_cmd": f"./vf {pid} --tier quick",
                "thorough_cmd": f"./vf {pid} --tier thorough",
                "evidence_file": f"evidence/{pid}.json",
                "replay_cmd_template": "./vf replay {path}",
                "engine": eng,
                "level_claimed": {"category": cat, "text": text, "design_ref": f"DESIGN.md section {ref}"},
                "level_note": note,
                "technique": tech,
            })
        else:
            na.append({"property_id": pid, "reason": NOT_APPLICABLE.get(pid, PENDING)})
    man = {
        "version": 1,
        "setup_cmd": "./setup.sh",
        "hooks": {
            "guard": "SYMPLYPHYSICS_VERIF",
            "enable": "no source hooks: checks import /repo's working tree directly and rebind names in module namespaces at run time; the variable is reserved",
            "baseline_off_cmd": "cd /repo && /venv/bin/python -m pytest -ra -q -p no:cacheprovider --timeout=900 --continue-on-collection-errors",
            "source_commits": [],
            "add_only": True,
        },
        "engines": [
            {"name": "S", "path": "vlib/s2smt.py", "serves_properties": ["C02", "C10", "C11", "C12", "C13", "C14", "C15", "C16", "C17", "C18", "C20"],
             "kind_free_text": "real code executed on generic SymPy symbols; results translated to z3 Reals with definitional side constraints; negated identity decided by z3 (QF_NRA)"},
            {"name": "L", "path": "vlib/lift.py", "serves_properties": ["C04", "C05", "C06", "C07", "C08"],
             "kind_free_text": "lifted native execution: real functions run on stand-in objects carrying z3 terms; branch predicates fork; per-path assertions decided by z3"},
            {"name": "D", "path": "vlib/dimlra.py", "serves_properties": ["C01"],
             "kind_free_text": "dimension-exponent linear constraints over the real equation trees, decided by z3 (QF_LRA)"},
            {"name": "X", "path": "checks/ (crosshair harness files)", "serves_properties": ["C09", "C19"],
             "kind_free_text": "CrossHair 0.0.110 symbolic execution of str/int helpers"},
        ],
        "checks": checks,
        "not_applicable": na,
        "notes": "Verdict rule: unsat = discharged within the stated bound; sat is replayed on the unpatched code in a fresh process and only a reproducing model is a VIOLATION; unknown/timeout/non-reproducing = inconclusive (counted, never a pass, never an alarm). Known findings: known_findings.json.",
    }
    with open(os.path.join(ROOT, "MANIFEST.json"), "w") as f:
        json.dump(man, f, indent=1)
    print("claimed:", [c["property_id"] for c in checks], "not_applicable:", len(na))


if __name__ == "__main__":
    main()
