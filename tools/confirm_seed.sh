#!/bin/sh
# usage: tools/confirm_seed.sh <Cnn> <mK>  -- independently confirm a seeded change from /tmp/seed_out in a scratch worktree
# of /repo's current HEAD: (1) full suite passes with the patch, (2) demo exits 1 with it, (3) demo exits 0 without it.
ID="$1"; M="$2"; ROOTSRC="${3:-/tmp/seed_out}"; SUF="${4:-}"; SRC=$ROOTSRC/$ID/$M; WT=/tmp/confirm/$ID-$M$SUF; DST=/verif/seeded/$ID-$M$SUF
[ -f "$SRC/patch.diff" ] || { echo "no patch for $ID $M"; exit 2; }
REF="${CONFIRM_REF:-HEAD}"          # CONFIRM_REF: confirm against an earlier commit (a seed neutralised by a later fix)
mkdir -p /tmp/confirm; git -C /repo worktree add -q --detach "$WT" "$REF" || exit 2
cd "$WT"
cp "$SRC/demo.py" demo.py
/venv/bin/python demo.py >/tmp/confirm/$ID-$M$SUF.clean.log 2>&1; RC_CLEAN=$?
if git apply "$SRC/patch.diff"; then APPLIED=1; else APPLIED=0; fi
/venv/bin/python demo.py >/tmp/confirm/$ID-$M$SUF.mut.log 2>&1; RC_MUT=$?
SUITE=$(/venv/bin/python -m pytest -q -p no:cacheprovider -n 8 2>&1 | tail -1)
HEAD=$(git -C /repo rev-parse --short "$REF")
cd /; git -C /repo worktree remove --force "$WT"
mkdir -p "$DST"; cp "$SRC/patch.diff" "$SRC/demo.py" "$DST/"; [ -f "$SRC/notes.md" ] && cp "$SRC/notes.md" "$DST/notes.md"
cat > "$DST/confirm.json" <<EOT
{"id": "$ID-$M$SUF", "property": "$ID", "repo_head": "$HEAD", "patch_applied": $APPLIED, "demo_exit_clean": $RC_CLEAN, "demo_exit_mutated": $RC_MUT, "suite_with_patch": "$SUITE",
 "ran": ["git worktree add /tmp/confirm/$ID-$M HEAD", "python demo.py (clean)", "git apply patch.diff", "python demo.py (mutated)", "python -m pytest -q -n 8 (mutated)"]}
EOT
echo "$ID-$M$SUF applied=$APPLIED clean=$RC_CLEAN mutated=$RC_MUT suite: $SUITE"
