#!/usr/bin/env python3
"""Record coverage floors (85 % of discharged + inconclusive) from the evidence files of the last runs, for the tier those runs had.
Run after a complete pass of one tier on the unchanged tree:  python3 tools/mkfloor.py"""
import glob
import json
import os

ROOT = os.path.join(os.path.dirname(os.path.abspath(__file__)), "..")
path = os.path.join(ROOT, "refs", "coverage_floor.json")
try:
    floors = json.load(open(path))
except (OSError, ValueError):
    floors = {}
EVDIR = os.environ.get("VERIF_EVIDENCE_DIR") or os.path.join(ROOT, "evidence")     # a thorough pass may have written to a scratch directory
for f in sorted(glob.glob(os.path.join(EVDIR, "C*.json"))):
    ev = json.load(open(f))
    cov = ev["coverage"]
    if ev["violations"]:
        continue
    enc = cov["discharged"] + cov["inconclusive"]
    floors.setdefault(ev["property_id"], {})[ev["tier"]] = int(enc * 0.85)
json.dump(floors, open(path, "w"), indent=1, sort_keys=True)
print(json.dumps(floors, sort_keys=True))
