#!/bin/sh
# Like seedtest.sh but leaves /repo alone: applies <patch> to the scratch worktree $WT (default /tmp/wtS, created from /repo's HEAD
# if missing), runs the check against it through VERIF_REPO, reverts.   usage: tools/seedtest_wt.sh <patch> <Cnn> [tier]
WT=${WT:-/tmp/wtS}
[ -d "$WT" ] || git -C /repo worktree add -q --detach "$WT" HEAD || exit 2
git -C "$WT" checkout -q --detach "$(git -C /repo rev-parse HEAD)" || exit 2
git -C "$WT" apply "$1" || { echo "patch does not apply"; exit 3; }
cd /verif
EVID=$(mktemp -d)
VERIF_REPO="$WT" VERIF_EVIDENCE_DIR=$EVID ./vf "$2" --tier "${3:-quick}" 2>&1 | grep -E "VIOLATION|key=|^\[C|HARNESS|KNOWN" | cut -c1-${LINES_W:-260} | head -${LINES_MAX:-12}
rm -rf $EVID
git -C "$WT" checkout -- . ; git -C "$WT" clean -fdq
