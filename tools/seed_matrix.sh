#!/bin/sh
# Runs every seeded change against its property's quick check and writes seeded/RESULTS.json.
# JOBS workers (default 4), each with its own scratch worktree of /repo's HEAD ($WTBASE<k>, default /tmp/wtM<k>) which the check reads
# through VERIF_REPO; /repo itself is not touched, and evidence goes to a scratch directory (VERIF_EVIDENCE_DIR), not to evidence/.
# SEEDS="seeded/C04-m1 ..." restricts the run (RESULTS.json is then merged, not replaced).
cd /verif || exit 2
JOBS=${JOBS:-4}; WTBASE=${WTBASE:-/tmp/wtM}
HEAD=$(git -C /repo rev-parse HEAD)
TMP=$(mktemp -d)
ls -d ${SEEDS:-seeded/C*-m*} > $TMP/all
# the scratch worktrees are created one after the other (concurrent `git worktree add` calls race on .git/worktrees)
k=0
while [ $k -lt $JOBS ]; do
  [ -d "$WTBASE$k" ] || git -C /repo worktree add -q --detach "$WTBASE$k" "$HEAD" || exit 2
  k=$((k+1))
done
k=0
while [ $k -lt $JOBS ]; do
  awk -v k=$k -v n=$JOBS 'NR % n == k' $TMP/all > $TMP/list$k
  (
    WT=$WTBASE$k
    git -C "$WT" checkout -q --detach "$HEAD"; git -C "$WT" checkout -- . ; git -C "$WT" clean -fdq
    while read d; do
      id=$(basename $d); prop=${id%%-*}
      P=$d/patch.diff; [ -f $d/patch_rebased.diff ] && P=$d/patch_rebased.diff
      if git -C "$WT" apply /verif/$P 2>/dev/null; then
        res=$(VERIF_REPO="$WT" VERIF_EVIDENCE_DIR=$TMP/ev$k ./vf $prop --tier quick 2>&1); rc=$?
        git -C "$WT" checkout -- . ; git -C "$WT" clean -fdq
        n=$(printf "%s\n" "$res" | grep -c "^VIOLATION")
        key=$(printf "%s\n" "$res" | grep -A1 "^VIOLATION" | grep "key=" | head -1 | sed 's/^ *key=//' | cut -c1-160 | tr -d '\000-\037' | sed 's/\\/\\\\/g; s/"/\\"/g')
        st="caught"; [ "$n" = "0" ] && st="not caught"
      else
        st="patch does not apply"; n=0; key=""; rc=-1
      fi
      printf '{"id": "%s", "property": "%s", "patch": "%s", "status": "%s", "exit": %s, "violations": %s, "first_key": "%s"}\n' "$id" "$prop" "$P" "$st" "$rc" "$n" "$key" >> $TMP/out$k
      echo "$id: $st ($n) exit=$rc"
    done < $TMP/list$k
    git -C /repo worktree remove --force "$WT"
  ) &
  k=$((k+1))
done
wait
cat $TMP/out* > $TMP/lines
python3 - "$TMP/lines" <<'PY'
import json, sys, os
out = "seeded/RESULTS.json"
res = json.load(open(out)) if os.environ.get("SEEDS") and os.path.exists(out) else {}
for l in open(sys.argv[1]):
    try:
        r = json.loads(l)
    except Exception as e:
        print("unreadable line", l[:120], e); continue
    res[r.pop("id")] = r
json.dump(dict(sorted(res.items())), open(out, "w"), indent=1)
nc = [k for k, v in res.items() if v["status"] != "caught"]
print(len(res), "seeds;", len(res) - len(nc), "caught; not caught:", nc)
PY
rm -rf $TMP; git -C /repo worktree prune
