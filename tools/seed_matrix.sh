#!/bin/sh
# Runs every seeded change against its property's quick check and writes seeded/RESULTS.json.
# Each patch is applied to a scratch worktree of /repo's HEAD ($WT, default /tmp/wtS) which the check reads through VERIF_REPO;
# /repo itself is not touched.  evidence/ is saved first and restored afterwards (it must describe the unchanged tree).
cd /verif || exit 2
WT=${WT:-/tmp/wtS}
[ -d "$WT" ] || git -C /repo worktree add -q --detach "$WT" HEAD || exit 2
git -C "$WT" checkout -q --detach "$(git -C /repo rev-parse HEAD)" || exit 2
git -C "$WT" checkout -- . ; git -C "$WT" clean -fdq
SAVE=$(mktemp -d); cp evidence/*.json $SAVE/
OUT=seeded/RESULTS.json
echo "{" > $OUT.tmp
first=1
for d in ${SEEDS:-seeded/C*-m*}; do
  id=$(basename $d); prop=${id%%-*}
  P=$d/patch.diff; [ -f $d/patch_rebased.diff ] && P=$d/patch_rebased.diff
  if git -C "$WT" apply /verif/$P 2>/dev/null; then
    res=$(VERIF_REPO="$WT" ./vf $prop --tier quick 2>&1)
    git -C "$WT" checkout -- . ; git -C "$WT" clean -fdq
    n=$(printf "%s\n" "$res" | grep -c "^VIOLATION")
    key=$(printf "%s\n" "$res" | grep -A1 "^VIOLATION" | grep "key=" | head -1 | sed 's/^ *key=//' | cut -c1-160 | tr -d '\000-\037' | sed 's/\\/\\\\/g; s/"/\\"/g')
    st="caught"; [ "$n" = "0" ] && st="not caught"
  else
    st="patch does not apply"; n=0; key=""
  fi
  [ $first = 1 ] || echo "," >> $OUT.tmp
  first=0
  printf ' "%s": {"property": "%s", "patch": "%s", "status": "%s", "violations": %s, "first_key": "%s"}' "$id" "$prop" "$P" "$st" "$n" "$key" >> $OUT.tmp
  echo "$id: $st ($n)"
done
echo "" >> $OUT.tmp; echo "}" >> $OUT.tmp; mv $OUT.tmp $OUT
cp $SAVE/*.json evidence/; rm -rf $SAVE
