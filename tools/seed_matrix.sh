#!/bin/sh
# Runs every seeded change against its property's quick check and writes seeded/RESULTS.json.
# Applies each patch to /repo and reverts it; do not run while something else uses /repo.
cd /verif || exit 2
OUT=seeded/RESULTS.json
echo "{" > $OUT.tmp
first=1
for d in seeded/C*-m*; do
  id=$(basename $d); prop=${id%-*}
  P=$d/patch.diff; [ -f $d/patch_rebased.diff ] && P=$d/patch_rebased.diff
  if ! git -C /repo diff --quiet; then echo "repo dirty"; exit 2; fi
  if git -C /repo apply /verif/$P 2>/dev/null; then
    res=$(./vf $prop --tier quick 2>&1)
    git -C /repo checkout -- .
    n=$(echo "$res" | grep -c "^VIOLATION")
    key=$(echo "$res" | grep -A1 "^VIOLATION" | grep "key=" | head -1 | sed 's/^ *key=//' | cut -c1-160 | sed 's/\\/\\\\/g; s/"/\\"/g')
    st="caught"; [ "$n" = "0" ] && st="not caught"
  else
    st="patch does not apply"; n=0; key=""
  fi
  [ $first = 1 ] || echo "," >> $OUT.tmp
  first=0
  printf ' "%s": {"property": "%s", "patch": "%s", "status": "%s", "violations": %s, "first_key": "%s"}' "$id" "$prop" "$P" "$st" "$n" "$key" >> $OUT.tmp
  echo "$id: $st ($n)"
done
echo "" >> $OUT.tmp; echo "}" >> $OUT.tmp; mv $OUT.tmp $OUT
