#!/bin/sh
# usage: tools/seedtest.sh <patch.diff> <Cnn> [tier]   -- apply a seeded change to /repo, run the check, undo
P="$1"; ID="$2"; TIER="${3:-quick}"
cd /repo || exit 9
if ! git diff --quiet; then echo "repo dirty"; exit 9; fi
git apply "$P" || { echo "patch does not apply"; exit 9; }
cd /verif && ./vf "$ID" --tier "$TIER" 2>&1 | grep -E "VIOLATION|KNOWN|SPURIOUS|^\[C|HARNESS|key=" | head -${LINES_MAX:-12}
RC=$?
git -C /repo checkout -- . 
