#!/bin/sh
# Build the overlay venv /verif/.venv (offline): /venv's interpreter + /venv's
# site-packages + /repo working tree on the path + z3/cvc5/crosshair from the
# local wheelhouse.  Idempotent.
set -e
cd "$(dirname "$0")"
V=.venv
if [ ! -x $V/bin/python ] || ! $V/bin/python -c "import z3, crosshair, sympy" 2>/dev/null; then
  rm -rf $V
  /venv/bin/python -m venv $V
  SP=$($V/bin/python -c "import sysconfig; print(sysconfig.get_paths()['purelib'])")
  printf "import site; site.addsitedir('/venv/lib/python3.12/site-packages')\n/repo\n" > "$SP/verif_overlay.pth"
  PIP_NO_INDEX=1 $V/bin/pip install -q --no-index --find-links /opt/veriftools/wheels z3-solver cvc5 crosshair-tool
fi
$V/bin/python -c "import z3, sympy, symplyphysics, crosshair; print('verif venv ok: z3', z3.get_version_string(), 'sympy', sympy.__version__)"
