"""C19 - documentation generation is total, faithful and leaves no global state (partial: L + X + one concrete extraction run).

S1 (solver): the evaluation flag after generating any page is True for EVERY initial value of the flag (symbolic Bool through
    the real disable/reset functions along the toggle trace the real patcher produces for that page), and the trace is well
    nested -> by induction every order of pages, whatever ran before.
S3 (CrossHair): _find_law_directives locates the first occurrence of each directive for symbolic docstrings.
E  (concrete, stated as such): one real generate_laws_docs run (twice) over the working tree into a scratch directory.
"""
from __future__ import annotations

import ast
import hashlib
import os
import re
import shutil
import json
import subprocess
import sys
import tempfile
import time

import z3

from vlib import docsrc
from vlib.par import pmap
from vlib.report import ROOT

LEVEL = "other"


class FlagCell:
    """stands in for sympy.core.parameters.global_parameters inside core.processors: evaluate is a z3 Bool term"""

    def __init__(self, init):
        object.__setattr__(self, "_v", init)
        object.__setattr__(self, "writes", 0)

    def __getattr__(self, n):
        if n == "evaluate":
            return object.__getattribute__(self, "_v")
        raise AttributeError(n)

    def __setattr__(self, n, v):
        if n != "evaluate":
            raise AttributeError(n)
        object.__setattr__(self, "_v", z3.BoolVal(v) if isinstance(v, bool) else v)
        object.__setattr__(self, "writes", object.__getattribute__(self, "writes") + 1)


SYNTHETIC = {}


def synthetic_sources():
    """modules with 1-3 formula members in every position among plain members (the catalogue itself never has more than one per module)"""
    if SYNTHETIC:
        return SYNTHETIC
    head = '"""\nTitle\n=====\n\nText.\n"""\nfrom sympy import Eq, symbols\na, b, c = symbols("a b c")\n"""\nA plain member.\n"""\n'
    plain = 'k{i} = a + {i}\n"""\nPlain member {i}.\n"""\n'
    formula = 'law{i} = Eq(a, {i} * (b + c))\n"""\n:laws:symbol::\n\n:laws:latex::\n"""\n'
    import itertools
    for n in (2, 3, 4):
        for pattern in itertools.product("FP", repeat=n):
            if pattern.count("F") == 0:
                continue
            src = head + "".join((formula if ch == "F" else plain).format(i=i + 1) for i, ch in enumerate(pattern))
            SYNTHETIC["synthetic:" + "".join(pattern)] = src
    return SYNTHETIC


def trace_of(relpath):
    """toggle trace of the page as produced by the real patcher: 'D' (disable), 'R' (reset), 'A' assignment, 'P' docstring with a formula
    placeholder, 'S' other docstring, 'M' other statement"""
    from symplyphysics.docs.patch import patch_sympy_evaluate
    if relpath.startswith("synthetic:"):
        tree = ast.parse(synthetic_sources()[relpath])
    else:
        with open(os.path.join(docsrc.REPO, relpath), encoding="utf-8") as f:
            tree = ast.parse(f.read())
    if ast.get_docstring(tree) is None:
        return None
    tree = patch_sympy_evaluate(tree)
    tr = []
    for stmt in tree.body:
        if isinstance(stmt, ast.Expr) and isinstance(stmt.value, ast.Call) and isinstance(stmt.value.func, ast.Name):
            if stmt.value.func.id == "disable_sympy_evaluation":
                tr.append("D")
                continue
            if stmt.value.func.id == "reset_sympy_evaluation":
                tr.append("R")
                continue
        if isinstance(stmt, ast.Expr) and isinstance(stmt.value, ast.Constant):
            txt = stmt.value.value if isinstance(stmt.value.value, str) else ""
            tr.append("P" if ((":laws:symbol::" in txt or ":laws:latex::" in txt) and ":laws:sympy-eval::" not in txt) else "S")      # docstring (with / without a formula placeholder)
        elif isinstance(stmt, ast.Assign):
            tr.append("A")
        else:
            tr.append("M")
    return tr


def flag_obligation(relpath):
    from symplyphysics.core import processors as PR
    tr = trace_of(relpath)
    if tr is None:
        return None
    out = {"name": f"flag:{relpath}", "trace": "".join(tr)}
    # well-nestedness on the real patched AST: D A S* R, nothing else inside a disabled window, no nested D
    s = "".join(tr)
    body = s[1:] if s[:1] in "SP" else s        # the module docstring itself is not a member
    if re.search(r"D[^R]*D", s) or s.count("D") != s.count("R") or re.search(r"D(?!A[SP]*R)", s) or re.search(r"(?<!D)AP", body):
        out.update(verdict="candidate", why=f"toggle trace is not (disable, formula member, docstring, reset) around EVERY formula member and nowhere else: {s}")
        return out
    # symbolic initial flag through the real functions
    b0 = z3.Bool("flag0")
    cell = FlagCell(b0)
    saved = PR.global_parameters
    PR.global_parameters = cell
    inside = []
    try:
        for t in tr:
            if t == "D":
                PR.disable_sympy_evaluation()
            elif t == "R":
                PR.reset_sympy_evaluation()
            elif t == "A":
                inside.append(cell.evaluate)
    finally:
        PR.global_parameters = saved
    final = cell.evaluate
    sol = z3.Solver()
    sol.add(z3.Not(final == z3.BoolVal(True)))
    r = str(sol.check())
    # if the page toggles nothing, the flag is whatever it was: the inductive invariant "True between pages" carries it
    if "D" not in tr:
        sol2 = z3.Solver()
        sol2.add(b0 == z3.BoolVal(True), z3.Not(final == z3.BoolVal(True)))
        r = str(sol2.check())
    out["verdict"] = "discharged" if r == "unsat" else ("candidate" if r == "sat" else "inconclusive")
    out["why"] = "final evaluate flag is not True for some initial value" if r == "sat" else r
    out["toggles"] = tr.count("D")
    return out


HARNESS = r'''
from typing import List, Tuple
from symplyphysics.docs.parse import _find_law_directives, LawDirectiveType

SYM = ":laws:symbol::"
LAT = ":laws:latex::"


def _ok(s: str) -> bool:
    return ":" not in s


def s3_latex_only(a: str, b: str) -> List[Tuple[int, int, int]]:
    """
    pre: len(a) <= 2 and len(b) <= 2 and _ok(a) and _ok(b)
    post: _ == [(len(a), len(a) + len(LAT), 1)]
    """
    return [(d.start, d.end, d.directive_type.value) for d in _find_law_directives(a + LAT + b)]


def s3_symbol_only(a: str, b: str) -> List[Tuple[int, int, int]]:
    """
    pre: len(a) <= 2 and len(b) <= 2 and _ok(a) and _ok(b)
    post: _ == [(len(a), len(a) + len(SYM), 0)]
    """
    return [(d.start, d.end, d.directive_type.value) for d in _find_law_directives(a + SYM + b)]


def s3_both(a: str, b: str, c: str, order: bool) -> List[Tuple[int, int, int]]:
    """
    pre: len(a) <= 1 and len(b) <= 1 and len(c) <= 1 and _ok(a) and _ok(b) and _ok(c)
    post: sorted(_) == sorted([(len(a), len(a) + len(SYM if order else LAT), 0 if order else 1), (len(a) + len(SYM if order else LAT) + len(b), len(a) + len(SYM) + len(LAT) + len(b), 1 if order else 0)])
    """
    first, second = (SYM, LAT) if order else (LAT, SYM)
    return [(d.start, d.end, d.directive_type.value) for d in _find_law_directives(a + first + b + second + c)]


def s3_none(a: str) -> int:
    """
    pre: len(a) <= 3 and _ok(a)
    post: _ == 0
    """
    return len(_find_law_directives(a))
'''


def write_harness():
    from checks import c09
    os.makedirs(os.path.join(ROOT, "scratch"), exist_ok=True)
    path = os.path.join(ROOT, "scratch", "c19_harness.py")
    with open(path, "w") as f:
        f.write(c09.make_twin(HARNESS.replace("def s3_", "def o3_").replace("s3_", "o3_")))
    return path


REPLAY_X = r'''
import sys, importlib.util, inspect
sys.path.insert(0, {root!r})
from checks import c19
path = c19.write_harness()
spec = importlib.util.spec_from_file_location("c19_harness", path); H = importlib.util.module_from_spec(spec); spec.loader.exec_module(H)
call = {call!r}; fn = getattr(H, {fn!r})
inner = call[call.index("(") + 1:call.rindex(")")]
args = eval("(" + inner + ",)", vars(H)) if inner.strip() else ()
try:
    res = fn(*args)
except Exception as e:
    print("REPRODUCED:", call, "raised", type(e).__name__, e); sys.exit(1)
names = list(inspect.signature(fn).parameters)
env = dict(vars(H)); env.update(dict(zip(names, args))); env["_"] = res
for ps in [l.split("post:", 1)[1].strip() for l in (fn.__doc__ or "").splitlines() if l.strip().startswith("post:")]:
    if not eval(ps, env):
        print("REPRODUCED:", call, "returned", res, "violating post:", ps); sys.exit(1)
print(call, "->", res, "ok")
'''

REPLAY_FLAG = r'''
import sys
sys.path.insert(0, {root!r})
from checks import c19
r = c19.flag_obligation({relpath!r})
print(r)
if r and r["verdict"] == "candidate":
    print("REPRODUCED"); sys.exit(1)
'''


# ---- extraction run ------------------------------------------------------
GEN = r'''
import sys, os, json, hashlib
os.chdir(os.environ.get("VERIF_REPO", "/repo"))
from sympy.core.parameters import global_parameters
from symplyphysics.docs.build import generate_laws_docs
out = sys.argv[1]
os.makedirs(out, exist_ok=True)
err = None
try:
    generate_laws_docs("symplyphysics", out, ["core"], True)
except Exception as e:
    import traceback
    err = traceback.format_exc()[-1500:]
print(json.dumps({"flag": bool(global_parameters.evaluate), "error": err}))
'''


def generate(outdir):
    env = dict(os.environ)
    env["PYTHONHASHSEED"] = "0"
    p = subprocess.run([os.path.join(ROOT, ".venv", "bin", "python"), "-c", GEN, outdir], capture_output=True, text=True, env=env, timeout=900)
    import json
    try:
        return json.loads(p.stdout.strip().splitlines()[-1])
    except Exception:
        return {"flag": None, "error": (p.stdout + p.stderr)[-1500:]}


def page_check(relpath_outdir):
    """every documented member's rendering is on the module's page; no raw placeholder survives"""
    relpath, outdir = relpath_outdir
    from symplyphysics.docs.printer_code import code_str
    from symplyphysics.docs.printer_latex import latex_str
    from symplyphysics.docs.parse import LawDirectiveType
    is_pkg = relpath.endswith("/__init__.py")
    stem = ".".join((relpath[:-len("/__init__.py")] if is_pkg else relpath[:-3]).split("/")[1:])
    page = os.path.join(outdir, stem + ".rst")
    try:
        # "documented module" by an independent reading of the module docstring (not the repo's title parser, which decides the page set)
        res = docsrc.members_of(relpath) if docsrc.has_title_independent(relpath) else None
    except Exception as e:
        return [{"name": f"page:{relpath}", "verdict": "unencoded", "why": f"pipeline raised {type(e).__name__}"}]
    if res is None:
        if os.path.exists(page):
            return [{"name": f"page:{relpath}", "verdict": "candidate", "why": "page generated for an undocumented module", "relpath": relpath}]
        return []
    out = []
    if not os.path.exists(page):
        return [{"name": f"page:{relpath}", "verdict": "candidate", "why": "no page generated for a documented module", "relpath": relpath}]
    text = open(page, encoding="utf-8").read()
    if ":laws:symbol::" in text or ":laws:latex::" in text or ":laws:sympy-eval::" in text:
        out.append({"name": f"page:{relpath}:placeholders", "verdict": "candidate", "why": "a raw directive placeholder survives in the page", "relpath": relpath})
    members, functions = res
    flat = re.sub(r"\s+", " ", text)
    # independent expectation (read from the UNPATCHED source): every public module-level assignment that is followed by a docstring
    # statement is a documented member and must have an entry on the page
    with open(os.path.join(docsrc.REPO, relpath), encoding="utf-8") as f:
        raw = ast.parse(f.read())
    cur = None
    documented = []
    for stmt in raw.body:
        if isinstance(stmt, ast.Assign):
            cur = next((t.id for t in stmt.targets if isinstance(t, ast.Name)), None)
        elif isinstance(stmt, ast.Expr) and isinstance(stmt.value, ast.Constant) and isinstance(stmt.value.value, str) and cur:
            if not cur.startswith("_") and cur not in documented:
                documented.append(cur)
            cur = None
        else:
            cur = None
    for nm in documented:
        if f".. py:data:: {nm}\n" not in text:
            out.append({"name": f"page:{relpath}:{nm}:entry", "verdict": "candidate", "why": f"documented member {nm} has no entry on the page", "relpath": relpath})
        else:
            out.append({"name": f"page:{relpath}:{nm}:entry", "verdict": "discharged"})
    for m in members:
        if m.name.startswith("_"):
            continue
        if f".. py:data:: {m.name}" not in text and f":: {m.name}\n" not in text and m.name not in text:
            out.append({"name": f"page:{relpath}:{m.name}", "verdict": "candidate", "why": f"documented member {m.name} is missing from the page", "relpath": relpath})
            continue
        for d in m.directives:
            try:
                r = code_str(m.value) if d.directive_type == LawDirectiveType.SYMBOL else latex_str(m.value)
            except Exception as e:
                out.append({"name": f"page:{relpath}:{m.name}", "verdict": "candidate", "why": f"rendering raised {type(e).__name__}", "relpath": relpath})
                continue
            if re.sub(r"\s+", " ", r) not in flat:
                out.append({"name": f"page:{relpath}:{m.name}:{d.directive_type.name}", "verdict": "candidate",
                            "why": f"the {d.directive_type.name} rendering of this module's own member {m.name} is not on its page", "relpath": relpath})
            else:
                out.append({"name": f"page:{relpath}:{m.name}:{d.directive_type.name}", "verdict": "discharged"})
        pass
    # cross-references: the real role processors (docs/build.py applies them to every generated page) must resolve every role
    try:
        from pathlib import Path
        from symplyphysics.docs import symbols_role, quantity_notation_role
        import importlib
        doc2 = symbols_role.process_string(text, Path(page))
        doc2 = quantity_notation_role.process_string(doc2, Path(page))
        if ":symbols:`" in doc2 or ":quantity_notation:`" in doc2:
            out.append({"name": f"page:{relpath}:roles", "verdict": "candidate", "why": "a :symbols:/:quantity_notation: role survives processing", "relpath": relpath})
        else:
            bad_ref = None
            for mm in re.finditer(r":attr:`~(symplyphysics\.(?:symbols\.\w+|quantities))\.(\w+)`", doc2):
                try:
                    if not hasattr(importlib.import_module(mm.group(1)), mm.group(2)):
                        bad_ref = mm.group(0)
                except Exception:
                    bad_ref = mm.group(0)
            if bad_ref:
                out.append({"name": f"page:{relpath}:roles", "verdict": "candidate", "why": f"cross-reference {bad_ref} does not resolve", "relpath": relpath})
            else:
                out.append({"name": f"page:{relpath}:roles", "verdict": "discharged"})
    except ValueError as e:
        out.append({"name": f"page:{relpath}:roles", "verdict": "candidate", "why": f"role resolution fails: {e}", "relpath": relpath})
    # every documented member whose VALUE carries a dimension (symbols, functions, quantities, Average/FiniteDifference/... wrappers) is a
    # documented symbol: its entry must hold the code name, LaTeX name and dimension, whatever the parser's own classification says
    if not is_pkg:
        try:
            import importlib
            from symplyphysics.core.symbols.symbols import print_dimension      # noqa: F401  (presence check only)
        except Exception:
            print_dimension = None
        try:
            mod = importlib.import_module(relpath[:-3].replace("/", "."))
        except Exception:
            mod = None
        if mod is not None:
            entries = re.split(r"\n(?=\.\. py:data:: )", text)
            for nm in documented:
                v = getattr(mod, nm, None)
                if not hasattr(v, "dimension"):
                    continue
                ent = next((e_ for e_ in entries if e_.startswith(f".. py:data:: {nm}\n")), "")
                try:
                    want_code, want_latex = code_str(v), latex_str(v)
                except Exception:
                    continue
                fl = re.sub(r"\s+", " ", ent)
                ok = ("Symbol" in ent and "Dimension" in ent and re.sub(r"\s+", " ", want_code) in fl and re.sub(r"\s+", " ", want_latex) in fl)
                out.append({"name": f"page:{relpath}:{nm}:listed-with-code-latex-dimension", "verdict": "discharged" if ok else "candidate",
                            "why": f"documented symbol {nm} ({type(v).__name__}) is not listed with its code name {want_code!r}, LaTeX name and dimension", "relpath": relpath})
    for m in members:
        if m.name.startswith("_"):
            continue
        if m.symbol is not None:
            ok = m.symbol.symbol in text and (m.symbol.latex is None or re.sub(r"\s+", " ", m.symbol.latex) in flat) and m.symbol.dimension in text
            out.append({"name": f"page:{relpath}:{m.name}:symbol-table", "verdict": "discharged" if ok else "candidate",
                        "why": "symbol table entry (code name, LaTeX name, dimension) missing", "relpath": relpath})
    return out


REPLAY_PAGE = r'''
import sys, tempfile, shutil
sys.path.insert(0, {root!r})
from checks import c19
d = tempfile.mkdtemp(prefix="c19replay_")
try:
    info = c19.generate(d)
    if info.get("error"):
        print("REPRODUCED: generation failed:", info["error"][-600:]); sys.exit(1)
    bad = [r for r in c19.page_check(({relpath!r}, d)) if r["verdict"] == "candidate"]
    for b in bad: print(b["name"], b["why"])
    if bad:
        print("REPRODUCED"); sys.exit(1)
finally:
    shutil.rmtree(d, ignore_errors=True)
'''

REPLAY_GEN = r'''
import sys, tempfile, shutil
sys.path.insert(0, {root!r})
from checks import c19
d = tempfile.mkdtemp(prefix="c19replay_")
try:
    info = c19.generate(d)
    print(info)
    if info.get("error") or info.get("flag") is not True:
        print("REPRODUCED"); sys.exit(1)
    exp, act = c19.page_sets(d)
    if exp != act:
        print("pages missing:", sorted(exp - act)[:8], " unexpected pages:", sorted(act - exp)[:8]); print("REPRODUCED"); sys.exit(1)
finally:
    shutil.rmtree(d, ignore_errors=True)
'''


ROLE_PROBE = r'''
import sys, os, re, json
from pathlib import Path
from symplyphysics.docs import symbols_role, quantity_notation_role
d = sys.argv[1]
out = {}
for root, _, files in os.walk(d):
    for f in files:
        p = os.path.join(root, f)
        text = open(p, encoding="utf-8").read()
        for m in set(re.findall(r":symbols:`\w*`|:quantity_notation:`\w*`", text)):
            try:
                t = quantity_notation_role.process_string(symbols_role.process_string(m, Path(p)), Path(p))
            except Exception as e:
                t = "raises " + type(e).__name__
            out[m] = t
print("@@" + json.dumps(out, sort_keys=True))
'''


def role_targets(outdir, hashseed):
    """{role text: resolved target} for every role on the generated pages, computed in a fresh interpreter under the given hash seed"""
    env = dict(os.environ)
    env["PYTHONHASHSEED"] = str(hashseed)
    try:
        p = subprocess.run([sys.executable, "-c", ROLE_PROBE, outdir], capture_output=True, text=True, timeout=600, env=env, cwd="/tmp")
    except subprocess.TimeoutExpired:
        return None
    for line in p.stdout.splitlines():
        if line.startswith("@@"):
            return json.loads(line[2:])
    return None


REPLAY_ROLES = r'''
import sys, tempfile, shutil
sys.path.insert(0, {root!r})
from checks import c19
d = tempfile.mkdtemp(prefix="c19replay_")
try:
    info = c19.generate(d)
    maps = {{hs: c19.role_targets(d, hs) for hs in (0, 1, 2, 3)}}
    diff = sorted(k for k in maps[0] if any(maps[hs].get(k) != maps[0][k] for hs in maps))
    for k in diff: print(k, "->", sorted({{maps[hs].get(k) for hs in maps}}))
    und = c19.undeclared_targets(d, maps[0])
    for k, v in list(und.items())[:8]: print(k, "points at", v, "which no generated page declares")
    if diff or und:
        print("REPRODUCED"); sys.exit(1)
finally:
    shutil.rmtree(d, ignore_errors=True)
'''


def page_sets(d):
    """(pages expected from the sources by the independent reading of the docstrings, pages present in the output directory d)"""
    expected = set()
    for f in docsrc.all_documented_sources():
        try:
            if docsrc.has_title_independent(f):
                expected.add(".".join((f[:-len("/__init__.py")] if f.endswith("/__init__.py") else f[:-3]).split("/")[1:]) + ".rst")
        except Exception:
            pass
    actual = {os.path.relpath(os.path.join(r_, f_), d) for r_, _, fs_ in os.walk(d) for f_ in fs_}
    return expected, actual


def declared_names(d):
    """fully qualified names the generated pages DECLARE: `.. py:currentmodule:: M` followed by `.. py:data:: X` (or py:function / py:class /
    py:attribute) declares M.X -- this is what a cross-reference `:attr:`~M.X`` has to find"""
    out = set()
    for root, _, files in os.walk(d):
        for f in files:
            cur = None
            for line in open(os.path.join(root, f), encoding="utf-8"):
                m = re.match(r"\s*\.\. py:currentmodule:: (\S+)", line)
                if m:
                    cur = m.group(1)
                    continue
                m = re.match(r"\s*\.\. py:(?:data|function|class|attribute|method):: ([\w.]+)", line)
                if m and cur:
                    out.add(cur + "." + m.group(1))
    return out


def undeclared_targets(d, role_map):
    """cross-reference targets (as the role processors resolve them) that no generated page declares"""
    decl = declared_names(d)
    bad = {}
    for role, resolved in sorted(role_map.items()):
        for t in re.findall(r":(?:attr|data|obj|func|class):`~?([\w.]+)`", str(resolved)):
            if t not in decl:
                bad[role] = t
    return bad


def tree_digest(d):
    h = hashlib.sha256()
    n = 0
    for root, _, files in sorted(os.walk(d)):
        for f in sorted(files):
            n += 1
            h.update(os.path.relpath(os.path.join(root, f), d).encode())
            h.update(open(os.path.join(root, f), "rb").read())
    return h.hexdigest(), n


def run(ctx):
    from checks import c09
    files = docsrc.source_files()
    ctx.explanation = (
        "Partial. S1 (solver): for every catalogue source file the real patch_sympy_evaluate is applied to its AST; the toggle trace must be "
        "(disable, member assignment, docstring*, reset)* and the real disable_sympy_evaluation/reset_sympy_evaluation are executed along it with "
        "the initial evaluate flag a z3 Bool: z3 shows the final flag is True for every initial value (pages without toggles preserve True), so by "
        "induction the flag is True after any sequence of pages. S3 (CrossHair): _find_law_directives on symbolic docstrings (<= 1-3 chars around "
        "the markers). E (concrete, NOT solver-decided): generate_laws_docs over the working tree twice into scratch directories: succeeds, "
        "byte-identical, flag True afterwards, one page per documented module, no raw placeholder, each directive site and symbol-table entry "
        "holds the rendering of that module's own member (recomputed independently through the same source-form pipeline).")
    ctx.functions_encoded = ["docs.patch.patch_sympy_evaluate", "core.processors.disable_sympy_evaluation/reset_sympy_evaluation", "docs.parse._find_law_directives",
                             "docs.build.generate_laws_docs (concrete run)", "docs.view._members_to_doc (through the run)"]
    ctx.bounds = [f"all {len(files)} catalogue source files", "CrossHair strings of 1-3 characters without ':'"]
    ctx.outside = ["Sphinx HTML build and docs/build.py argument handling", 
                   "an exception raised between disable and reset would leak the flag (no catalogue module raises there; generation aborts in that case)"]
    ctx.trusted = ["z3", "CrossHair", "the concrete generation run is what it is: a run"]
    # S1
    res = pmap(flag_obligation, files + sorted(synthetic_sources()), chunk=8)
    for r in res:
        if r is None:
            continue
        if "error" in r:
            ctx.harness_errors.append(r["error"][-300:])
            continue
        ctx.add_solver(1, 0.0)
        if r["verdict"] == "discharged":
            ctx.ob(r["name"], "discharged", nontrivial=r.get("toggles", 0) > 0, sample={"page": r["name"], "toggle_trace": r["trace"]} if len(ctx.samples) < 5 and r.get("toggles", 0) > 1 else None)
        elif r["verdict"] == "inconclusive":
            ctx.ob(r["name"], "inconclusive", r["why"])
        else:
            ctx.violation("C19:" + r["name"], r["why"], REPLAY_FLAG.format(root=ROOT, relpath=r["name"][5:]))
    # S3
    path = write_harness()
    fns = re.findall(r"^def (o3_\w+)\(", open(path).read(), re.M)
    timeout = 150 if ctx.tier == "thorough" else 45
    from concurrent.futures import ThreadPoolExecutor

    def job(fn):
        return fn, c09.run_crosshair(path, c09.line_of(path, fn), timeout)
    with ThreadPoolExecutor(max_workers=8) as ex:
        results = dict(ex.map(job, fns))
    for fn in fns:
        if fn.endswith("__twin"):
            continue
        out, secs = results[fn]
        tout, tsecs = results[fn + "__twin"]
        ctx.add_solver(2, secs + tsecs)
        if "error:" in out and "Confirmed" not in out:
            msg = [l for l in out.splitlines() if "error:" in l][0][:400]
            mm = re.search(r"when calling (\w+\(.*\))", msg)
            call = re.sub(r"\s*\(which returns.*$", "", mm.group(1)) if mm else fn + "()"
            ctx.violation(f"C19:S3:{fn}", f"CrossHair counterexample: {msg}", REPLAY_X.format(root=ROOT, fn=fn, call=call))
        elif "Confirmed over all paths" in out and "error:" in tout:
            ctx.ob("S3:" + fn, "discharged", sample={"condition": fn, "crosshair": "Confirmed over all paths", "twin": "refuted"})
        else:
            ctx.ob("S3:" + fn, "inconclusive", "not confirmed within the time limit" if "Not confirmed" in out else out.strip()[-100:])
    # E: concrete extraction run
    d1 = tempfile.mkdtemp(prefix="c19a_")
    d2 = tempfile.mkdtemp(prefix="c19b_")
    try:
        i1 = generate(d1)
        i2 = generate(d2)
        if i1.get("error") or i2.get("error"):
            ctx.violation("C19:E:generation-fails", f"generate_laws_docs raised: {(i1.get('error') or i2.get('error'))[-400:]}", REPLAY_GEN.format(root=ROOT))
        else:
            ctx.ob("E:generation succeeds", "discharged", nontrivial=False)
            if i1.get("flag") is True and i2.get("flag") is True:
                ctx.ob("E:evaluate flag True after generation", "discharged", nontrivial=False)
            else:
                ctx.violation("C19:E:flag-leak", "global_parameters.evaluate is not True after generation", REPLAY_GEN.format(root=ROOT))
            h1, n1 = tree_digest(d1)
            h2, n2 = tree_digest(d2)
            ctx.extra["pages"] = n1
            if h1 == h2:
                ctx.ob("E:two runs byte-identical", "discharged", nontrivial=False)
            else:
                ctx.ob("E:two runs byte-identical", "inconclusive", "outputs differ between two runs (PYTHONHASHSEED fixed)")
            # determinism across PROCESSES: Python randomises string hashes per process unless PYTHONHASHSEED is set, so anything that
            # iterates a set of names may differ from run to run.  The cross-reference roles are resolved in fresh interpreters under
            # four hash seeds; every role used on any generated page must resolve to the same target in all of them.
            maps = {hs: role_targets(d1, hs) for hs in (0, 1, 2, 3)}
            if any(m is None for m in maps.values()):
                ctx.ob("E:cross-references independent of the hash seed", "inconclusive", "role resolution subprocess failed")
            else:
                diff = sorted(k for k in maps[0] if any(maps[hs].get(k) != maps[0][k] for hs in maps))
                if diff:
                    ctx.violation("C19:E:hash-seed-dependent cross-references", f"role targets differ between interpreter runs (PYTHONHASHSEED 0..3): " +
                                  "; ".join(f"{k} -> {sorted({maps[hs].get(k) for hs in maps})}" for k in diff[:6]), REPLAY_ROLES.format(root=ROOT))
                else:
                    ctx.ob("E:cross-references independent of the hash seed", "discharged", nontrivial=False)
            if maps.get(0):
                und = undeclared_targets(d1, maps[0])
                if und:
                    ctx.violation("C19:E:cross-reference targets not declared on any page", f"{len(und)} cross-references point at names no generated page declares, e.g. " +
                                  "; ".join(f"{k} -> {v}" for k, v in list(und.items())[:4]), REPLAY_ROLES.format(root=ROOT))
                else:
                    ctx.ob("E:every cross-reference target is declared (currentmodule + py:data) on a generated page", "discharged", nontrivial=False)
            srcs = docsrc.all_documented_sources()
            expected, actual = page_sets(d1)
            if expected == actual:
                ctx.ob("E:exactly one page per documented module and package", "discharged", nontrivial=False)
            else:
                ctx.violation("C19:E:page-set", f"pages missing: {sorted(expected - actual)[:5]}; unexpected pages: {sorted(actual - expected)[:5]}", REPLAY_GEN.format(root=ROOT))
            pres = pmap(page_check, [(f, d1) for f in srcs], chunk=8)
            for rl in pres:
                if isinstance(rl, dict):
                    ctx.harness_errors.append(rl.get("error", "")[-300:])
                    continue
                for r in rl:
                    if r["verdict"] == "discharged":
                        ctx.ob(r["name"], "discharged", nontrivial=False)
                    elif r["verdict"] == "unencoded":
                        ctx.ob(r["name"], "unencoded", r["why"])
                    else:
                        ctx.violation("C19:" + r["name"], r["why"], REPLAY_PAGE.format(root=ROOT, relpath=r["relpath"]))
    finally:
        shutil.rmtree(d1, ignore_errors=True)
        shutil.rmtree(d2, ignore_errors=True)
