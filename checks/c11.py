"""C11 - changing coordinate system preserves the geometric vector and scalar field (engine S)."""
from __future__ import annotations

import itertools

import sympy as sp
import z3

from checks.c12 import base_scalar_handler
from checks.c15 import angle_facts
from vlib.par import pmap
from vlib.s2smt import Enc, Query, Unencodable

LEVEL = "other"


def env():
    from symplyphysics.core.coordinate_systems.coordinate_systems import CoordinateSystem, coordinates_transform
    S = CoordinateSystem.System
    C = CoordinateSystem(S.CARTESIAN)
    return {"CARTESIAN": C, "CYLINDRICAL": coordinates_transform(C, S.CYLINDRICAL), "SPHERICAL": coordinates_transform(C, S.SPHERICAL)}


def to_cart(kind, q):
    """textbook: library convention spherical = (r, azimuth theta, polar phi)"""
    if kind == "CYLINDRICAL":
        r, th, z = q
        return [r * sp.cos(th), r * sp.sin(th), z]
    if kind == "SPHERICAL":
        r, th, ph = q
        return [r * sp.cos(th) * sp.sin(ph), r * sp.sin(th) * sp.sin(ph), r * sp.cos(ph)]
    return list(q)


def new_enc():
    e = Enc()
    e.extra_handlers.append(base_scalar_handler)
    return e


def curv_domain(enc, kind, q):
    pi = enc.get_pi()
    cons = [enc.tr(q[0]) > 0]
    v, s, c = enc.bind_angle(q[1])
    cons += [v > -pi, v <= pi]
    if kind == "SPHERICAL":
        v2, s2, c2 = enc.bind_angle(q[2])
        cons += [v2 > 0, v2 < pi, s2 > 0]
    return cons


def decide(q, enc, name, diffs, dom, sample=None):
    import time as _t
    t0 = _t.time()
    try:
        ts = [enc.tr(sp.sympify(d)) for d in diffs]
    except Unencodable as e:
        return {"name": name, "verdict": "unencoded", "why": str(e)}
    base = enc.assume + enc.side + enc.domain + dom + angle_facts(enc)
    twin, _ = q.check(base)
    r, m = q.check(base + [z3.Or([t != 0 for t in ts])])
    if r == "unsat" and twin != "sat":
        r = "vacuous-domain"
    rec = {"name": name, "verdict": {"unsat": "discharged", "sat": "candidate"}.get(r, "inconclusive"), "why": r, "queries": 2, "solver_s": _t.time() - t0}
    if sample and r == "unsat":
        rec["sample"] = sample
    return rec


def pad(c):
    return list(c) + [sp.S.Zero] * (3 - len(c))


def work(item):
    from symplyphysics.core.vectors.vectors import Vector
    from symplyphysics.core.vectors import arithmetics as A
    from symplyphysics.core.fields.scalar_field import ScalarField
    kind_of, kind, timeout = item
    q = Query(None, timeout_ms=timeout)
    E = env()
    C, B = E["CARTESIAN"], E[kind]
    out = []
    try:
        if kind_of == "cart_roundtrip":
            enc = new_enc()
            a = sp.symbols("a1:4", real=True)
            dom = [enc.tr(a[0])**2 + enc.tr(a[1])**2 > 0]
            v = Vector(list(a), C)
            back = v.rebase(B).rebase(C)
            out.append(decide(q, enc, f"Cartesian -> {kind} -> Cartesian returns the components", [x - y for x, y in zip(pad(back.components), a)], dom,
                              {"rebased": [str(x)[:80] for x in v.rebase(B).components]}))
            # vectors given with fewer components behave as zero-padded under rebase
            for n in (1, 2):
                enc = new_enc()
                dom = [enc.tr(a[0])**2 + (enc.tr(a[1])**2 if n > 1 else 0) > 0, enc.tr(a[0]) != 0]
                short = Vector(list(a[:n]), C).rebase(B)
                full = Vector(list(a[:n]) + [0] * (3 - n), C).rebase(B)
                out.append(decide(q, enc, f"Cartesian -> {kind} with {n} components = zero-padded", [x - y for x, y in zip(pad(short.components), pad(full.components))], dom))
            # the curvilinear components denote the same geometric vector
            enc = new_enc()
            dom = [enc.tr(a[0])**2 + enc.tr(a[1])**2 > 0]
            cur = pad(v.rebase(B).components)
            out.append(decide(q, enc, f"Cartesian -> {kind}: same geometric vector", [x - y for x, y in zip(to_cart(kind, cur), a)], dom))
        elif kind_of == "curv_roundtrip":
            enc = new_enc()
            u = sp.symbols("u1:4", real=True)
            dom = curv_domain(enc, kind, u)
            v = Vector(list(u), B)
            vc = v.rebase(C)
            out.append(decide(q, enc, f"{kind} -> Cartesian: same geometric vector", [x - y for x, y in zip(pad(vc.components), to_cart(kind, u))], dom))
            enc = new_enc()
            dom = curv_domain(enc, kind, u)
            back = vc.rebase(B)
            out.append(decide(q, enc, f"{kind} -> Cartesian -> {kind} returns the components", [x - y for x, y in zip(pad(back.components), u)], dom,
                              {"back": [str(x)[:80] for x in back.components]}))
        elif kind_of == "rotated_frame":
            # the curvilinear system is built on a Cartesian frame that is itself rotated (about z, by a symbolic angle) against the
            # target Cartesian system: rebasing must change the TYPE and the FRAME; textbook: x = x' cos(al) - y' sin(al), y = x' sin(al) + y' cos(al)
            from symplyphysics.core.coordinate_systems.coordinate_systems import CoordinateSystem, coordinates_transform, coordinates_rotate
            al = sp.Symbol("al", real=True)
            C2 = coordinates_rotate(C, al, C.coord_system.k)
            B2 = coordinates_transform(C2, getattr(CoordinateSystem.System, kind))
            enc = new_enc()
            u = sp.symbols("u1:4", real=True)
            dom = curv_domain(enc, kind, u)
            got = pad(Vector(list(u), B2).rebase(C).components)
            xp, yp, zp = to_cart(kind, u)
            want = [xp * sp.cos(al) - yp * sp.sin(al), xp * sp.sin(al) + yp * sp.cos(al), zp]
            out.append(decide(q, enc, f"{kind} on a rotated frame -> Cartesian: same geometric vector", [x - y for x, y in zip(got, want)], dom,
                              {"library": [str(x)[:100] for x in got]}))
        elif kind_of == "products":
            u = sp.symbols("u1:4", real=True)
            w = sp.symbols("w1:4", real=True)
            k = sp.Symbol("k", real=True)
            vu, vw = Vector(list(u), B), Vector(list(w), B)
            cu, cw = to_cart(kind, u), to_cart(kind, w)
            for nm, got, want in (
                ("dot", lambda: A.dot_vectors(vu, vw), sum(x * y for x, y in zip(cu, cw))),
                ("dot vs rebased", lambda: A.dot_vectors(vu, vw), None),
                ("magnitude^2", lambda: A.vector_magnitude(vu)**2, sum(x * x for x in cu)),
            ):
                enc = new_enc()
                dom = curv_domain(enc, kind, u) + curv_domain(enc, kind, w)
                g = got()
                if want is None:
                    want = A.dot_vectors(vu.rebase(C), vw.rebase(C))
                out.append(decide(q, enc, f"{kind} {nm} equals the Cartesian one", [g - want], dom, {"library": str(g)[:100]}))
            enc = new_enc()
            dom = curv_domain(enc, kind, u)
            mt = enc.tr(A.vector_magnitude(vu))
            r, _ = q.check(enc.assume + enc.side + enc.domain + dom + angle_facts(enc) + [mt < 0])
            out.append({"name": f"{kind} magnitude >= 0", "verdict": "discharged" if r == "unsat" else ("candidate" if r == "sat" else "inconclusive"), "why": r})
            enc = new_enc()
            dom = curv_domain(enc, kind, u)
            sc = A.scale_vector(k, vu)
            out.append(decide(q, enc, f"{kind} scaling equals Cartesian scaling", [x - k * y for x, y in zip(to_cart(kind, pad(sc.components)), cu)], dom,
                              {"library": [str(x) for x in sc.components]}))
            # the operand itself is left alone by every operation (a scaled COPY is returned): later uses of the same object see the same vector
            before = [list(vu.components), list(vw.components)]
            A.scale_vector(k, vu); A.vector_magnitude(vu); A.dot_vectors(vu, vw); A.scale_vector(2, vw)
            try:
                A.vector_unit(vu); A.project_vector(vw, vu)
            except Exception:
                pass
            same_ops = [list(vu.components), list(vw.components)] == before
            out.append({"name": f"{kind} operations leave their operands unchanged", "verdict": "discharged" if same_ops else "candidate",
                        "why": f"operand components changed from {before} to {[list(vu.components), list(vw.components)]}", "trivial": True})
            # magnitude of the scaled vector (k may be negative: the scaled radial component then is): |k v| = |k| |v| >= 0
            enc = new_enc()
            dom = curv_domain(enc, kind, u)
            ms = A.vector_magnitude(sc)
            out.append(decide(q, enc, f"{kind} magnitude^2 of the scaled vector equals the Cartesian one", [ms**2 - k**2 * sum(x * x for x in cu)], dom, {"library": str(ms)[:100]}))
            enc = new_enc()
            dom = curv_domain(enc, kind, u)
            mt = enc.tr(ms)
            r, _ = q.check(enc.assume + enc.side + enc.domain + dom + angle_facts(enc) + [mt < 0])
            out.append({"name": f"{kind} magnitude of the scaled vector >= 0", "verdict": "discharged" if r == "unsat" else ("candidate" if r == "sat" else "inconclusive"), "why": r,
                        "vals": {"note": "negative scale factor"}})
            # fewer components behave as zero-padded
            for n in (1, 2):
                enc = new_enc()
                dom = curv_domain(enc, kind, u) + curv_domain(enc, kind, w)
                short = Vector(list(u[:n]), B)
                full = Vector(list(u[:n]) + [0] * (3 - n), B)
                out.append(decide(q, enc, f"{kind} dot with {n} components = zero-padded", [A.dot_vectors(short, vw) - A.dot_vectors(full, vw)], dom))
        elif kind_of == "scalar_field":
            from symplyphysics.core.points.cartesian_point import CartesianPoint
            from symplyphysics.core.points.cylinder_point import CylinderPoint
            from symplyphysics.core.points.sphere_point import SpherePoint
            P = {"CYLINDRICAL": CylinderPoint, "SPHERICAL": SpherePoint}[kind]
            F = sp.Function("F")
            # Cartesian field -> curvilinear, evaluated at a curvilinear point: arguments must be the Cartesian position of that point
            enc = new_enc()
            p = sp.symbols("p1:4", real=True)
            dom = curv_domain(enc, kind, p)
            f = ScalarField.from_expression(F(*C.coord_system.base_scalars()), C)
            val = f.rebase(B)(P(*p))
            if not (isinstance(val, sp.core.function.AppliedUndef) and val.func == F):
                out.append({"name": f"scalar field Cartesian->{kind}", "verdict": "candidate", "why": f"value is not F(...): {val}"})
            else:
                out.append(decide(q, enc, f"scalar field Cartesian->{kind}: same value at the same physical point", [x - y for x, y in zip(val.args, to_cart(kind, p))], dom,
                                  {"value": str(val)[:120]}))
            # a point filled in through its named accessors is the point built from the same coordinates (every setter writes its own slot,
            # every getter reads it): finite, structural
            acc = {"CYLINDRICAL": [("radius", "r"), ("azimuthal_angle", "theta"), ("height", "z")],
                   "SPHERICAL": [("radius", "r"), ("azimuthal_angle", "theta"), ("polar_angle", "phi")]}[kind]
            bad_acc = []
            for variant in (0, 1):
                pt = P(0, 0, 0)
                try:
                    for (long_, short_), val in zip(acc, p):
                        setattr(pt, (long_, short_)[variant] if hasattr(pt, (long_, short_)[variant]) else long_, val)
                    got_c = [pt.coordinate(i) for i in range(3)]
                    got_a = [getattr(pt, (long_, short_)[variant] if hasattr(pt, (long_, short_)[variant]) else long_) for long_, short_ in acc]
                    if got_c != list(p) or got_a != list(p):
                        bad_acc.append(f"{['long', 'short'][variant]} accessors: coordinates {got_c}, read back {got_a}, assigned {list(p)}")
                except Exception as ex_:
                    bad_acc.append(f"accessors raise {type(ex_).__name__}: {ex_}")
            # points created EMPTY and filled through the setters, several alive at once: each keeps its own coordinates
            try:
                from symplyphysics.core.points.cartesian_point import CartesianPoint
                e1, e2, ec = P(), P(), CartesianPoint()
                p2_ = [2 * p[0] + 1, p[1] / 2, p[2] + 3]
                for (long_, _s), v1_, v2_ in zip(acc, p, p2_):
                    setattr(e1, long_, v1_)
                    setattr(e2, long_, v2_)
                ec.x, ec.y, ec.z = 7, 8, 9
                e3 = P()
                got = ([e1.coordinate(i) for i in range(3)], [e2.coordinate(i) for i in range(3)], [ec.coordinate(i) for i in range(3)], [e3.coordinate(i) for i in range(3)])
                want = (list(p), p2_, [7, 8, 9], [0, 0, 0])
                if got != want:
                    bad_acc.append(f"points created empty and filled through setters read back {got}, assigned {want}")
            except Exception as ex_:
                bad_acc.append(f"points created empty: {type(ex_).__name__}: {ex_}")
            out.append({"name": f"{kind} point accessors write and read their own coordinate", "verdict": "candidate" if bad_acc else "discharged",
                        "why": "; ".join(bad_acc), "trivial": True})
            # points given with fewer than three coordinates are zero-padded: the rebased field takes the value it has at the padded point
            for npt in (1, 2):
                enc = new_enc()
                dom = curv_domain(enc, kind, p)
                fr = f.rebase(B)
                v_short, v_full = fr(P(*p[:npt])), fr(P(*(list(p[:npt]) + [0] * (3 - npt))))
                if not all(isinstance(v_, sp.core.function.AppliedUndef) and v_.func == F for v_ in (v_short, v_full)):
                    leaked = [str(a_) for a_ in sp.sympify(v_short).atoms(sp.vector.scalar.BaseScalar)]
                    out.append({"name": f"scalar field Cartesian->{kind}: point with {npt} coordinate(s) = zero-padded point", "verdict": "candidate",
                                "why": f"value at a short point is not F(...): {v_short} (unsubstituted {leaked})"})
                else:
                    out.append(decide(q, enc, f"scalar field Cartesian->{kind}: point with {npt} coordinate(s) = zero-padded point",
                                      [x - y for x, y in zip(v_short.args, v_full.args)], dom, {"value": str(v_short)[:120]}))
            # curvilinear field -> Cartesian, evaluated at a Cartesian point: arguments must be that point's curvilinear coordinates
            enc = new_enc()
            c = sp.symbols("c1:4", real=True)
            dom = [enc.tr(c[0])**2 + enc.tr(c[1])**2 > 0]
            g = ScalarField.from_expression(F(*B.coord_system.base_scalars()), B)
            val = g.rebase(C)(CartesianPoint(*c))
            if not (isinstance(val, sp.core.function.AppliedUndef) and val.func == F):
                out.append({"name": f"scalar field {kind}->Cartesian", "verdict": "candidate", "why": f"value is not F(...): {val}"})
            else:
                out.append(decide(q, enc, f"scalar field {kind}->Cartesian: same value at the same physical point", [x - y for x, y in zip(to_cart(kind, val.args), c)], dom,
                                  {"value": str(val)[:120]}))
                # and the coordinates are the principal ones: r > 0, angles in range (pins the branch of atan2/acos)
                enc = new_enc()
                dom = [enc.tr(c[0])**2 + enc.tr(c[1])**2 > 0]
                rr = enc.tr(val.args[0])
                th = enc.tr(val.args[1])
                pi = enc.get_pi()
                bad = [rr <= 0, th <= -pi, th > pi]
                if kind == "SPHERICAL":
                    ph = enc.tr(val.args[2])
                    bad += [ph < 0, ph > pi]
                r, _ = q.check(enc.assume + enc.side + enc.domain + dom + angle_facts(enc) + [z3.Or(bad)])
                out.append({"name": f"scalar field {kind}->Cartesian: principal coordinate ranges", "verdict": "discharged" if r == "unsat" else ("candidate" if r == "sat" else "inconclusive"), "why": r})
    except Unencodable as e:
        out.append({"name": f"{kind_of}:{kind}", "verdict": "unencoded", "why": str(e)})
    except Exception as e:
        out.append({"name": f"{kind_of}:{kind}", "verdict": "candidate", "why": f"raised {type(e).__name__}: {e}"})
    for o in out:
        o["item"] = [kind_of, kind]
    return out


REPLAY = r'''
import sys
import sympy as sp
from checks import c11
from symplyphysics.core.vectors.vectors import Vector
from symplyphysics.core.vectors import arithmetics as A
from symplyphysics.core.fields.scalar_field import ScalarField
from symplyphysics.core.points.cartesian_point import CartesianPoint
from symplyphysics.core.points.cylinder_point import CylinderPoint
from symplyphysics.core.points.sphere_point import SpherePoint
kind_of, kind = {item!r}
E = c11.env(); C, B = E["CARTESIAN"], E[kind]
N = lambda e: sp.N(e, 25)
close = lambda a, b: abs(N(a) - N(b)) < 1e-15 * (1 + abs(N(a)) + abs(N(b)))
carts = [(sp.Rational(3, 2), -2, sp.Rational(1, 2)), (-1, sp.Rational(1, 3), -2), (-2, -1, 3), (1, 2, 3)]
curvs = {{"CYLINDRICAL": [(sp.Rational(5, 2), -sp.Rational(7, 3), sp.Rational(1, 2)), (2, sp.Rational(5, 2), -1)], "SPHERICAL": [(sp.Rational(5, 2), -sp.Rational(7, 3), sp.Rational(2, 3)), (2, sp.Rational(5, 2), sp.Rational(5, 2))]}}[kind]
pad = c11.pad
bad = False
try:
    if kind_of == "cart_roundtrip":
        for a in carts:
            v = Vector(list(a), C); cur = pad(v.rebase(B).components); back = pad(v.rebase(B).rebase(C).components)
            if not all(close(x, y) for x, y in zip(back, a)) or not all(close(x, y) for x, y in zip(c11.to_cart(kind, cur), a)): bad = True; print(a, cur, back)
    elif kind_of == "curv_roundtrip":
        for u in curvs:
            v = Vector(list(u), B); vc = pad(v.rebase(C).components); back = pad(v.rebase(C).rebase(B).components)
            if not all(close(x, y) for x, y in zip(vc, c11.to_cart(kind, u))) or not all(close(x, y) for x, y in zip(back, u)): bad = True; print(u, vc, back)
    elif kind_of == "rotated_frame":
        from symplyphysics.core.coordinate_systems.coordinate_systems import CoordinateSystem, coordinates_transform, coordinates_rotate
        al = sp.Rational(7, 10)
        B2 = coordinates_transform(coordinates_rotate(C, al, C.coord_system.k), getattr(CoordinateSystem.System, kind))
        for u in curvs:
            got = pad(Vector(list(u), B2).rebase(C).components); xp, yp, zp = c11.to_cart(kind, u)
            want = [xp * sp.cos(al) - yp * sp.sin(al), xp * sp.sin(al) + yp * sp.cos(al), zp]
            if not all(close(x, y) for x, y in zip(got, want)): bad = True; print("rotated frame", u, [N(x) for x in got], [N(x) for x in want])
    elif kind_of == "products":
        for u, w in zip(curvs, reversed(curvs)):
            vu, vw = Vector(list(u), B), Vector(list(w), B); cu, cw = c11.to_cart(kind, u), c11.to_cart(kind, w)
            k = sp.Rational(-7, 3)
            ok = close(A.dot_vectors(vu, vw), sum(x * y for x, y in zip(cu, cw))) and close(A.vector_magnitude(vu)**2, sum(x * x for x in cu)) and N(A.vector_magnitude(vu)) >= 0
            ok = ok and all(close(x, k * y) for x, y in zip(c11.to_cart(kind, pad(A.scale_vector(k, vu).components)), cu))
            ok = ok and close(A.dot_vectors(vu, vw), A.dot_vectors(vu.rebase(C), vw.rebase(C)))
            ms = A.vector_magnitude(A.scale_vector(k, vu))
            ok = ok and close(ms**2, k**2 * sum(x * x for x in cu)) and N(ms) >= 0
            if list(vu.components) != list(u) or list(vw.components) != list(w): ok = False; print("an operation changed its operand:", list(vu.components), list(u))
            for n in (1, 2):
                ok = ok and close(A.dot_vectors(Vector(list(u[:n]), B), vw), A.dot_vectors(Vector(list(u[:n]) + [0] * (3 - n), B), vw))
            if not ok: bad = True; print("products differ at", u, w)
    else:
        P = {{"CYLINDRICAL": CylinderPoint, "SPHERICAL": SpherePoint}}[kind]
        x, y, z = C.coord_system.base_scalars(); q = B.coord_system.base_scalars()
        fc = x * y**2 - 3 * z + sp.sin(x) * z
        f = ScalarField.from_expression(fc, C).rebase(B)
        acc = {{"CYLINDRICAL": [("radius", "r"), ("azimuthal_angle", "theta"), ("height", "z")], "SPHERICAL": [("radius", "r"), ("azimuthal_angle", "theta"), ("polar_angle", "phi")]}}[kind]
        for variant in (0, 1):
            pt = P(0, 0, 0); vals3 = [sp.Rational(5, 2), sp.Rational(2, 3), sp.Rational(3, 4)]
            for (long_, short_), val in zip(acc, vals3):
                setattr(pt, (long_, short_)[variant] if hasattr(pt, (long_, short_)[variant]) else long_, val)
            if [pt.coordinate(i) for i in range(3)] != vals3: bad = True; print("accessors wrote", [pt.coordinate(i) for i in range(3)], "for", vals3)
        from symplyphysics.core.points.cartesian_point import CartesianPoint
        e1, e2, ec = P(), P(), CartesianPoint()
        v1s, v2s = [sp.Rational(5, 2), sp.Rational(2, 3), sp.Rational(3, 4)], [sp.Integer(6), sp.Rational(1, 3), sp.Rational(15, 4)]
        for (long_, _s), v1_, v2_ in zip(acc, v1s, v2s):
            setattr(e1, long_, v1_); setattr(e2, long_, v2_)
        ec.x, ec.y, ec.z = 7, 8, 9
        e3 = P()
        got = ([e1.coordinate(i) for i in range(3)], [e2.coordinate(i) for i in range(3)], [ec.coordinate(i) for i in range(3)], [e3.coordinate(i) for i in range(3)])
        if got != (v1s, v2s, [7, 8, 9], [0, 0, 0]): bad = True; print("points created empty and filled through setters read back", got)
        for u in curvs:
            X = c11.to_cart(kind, u)
            if not close(f(P(*u)), fc.subs({{x: X[0], y: X[1], z: X[2]}})): bad = True; print("field C->", kind, u)
            for npt in (1, 2):
                vs_, vf_ = f(P(*u[:npt])), f(P(*(list(u[:npt]) + [0] * (3 - npt))))
                if sp.sympify(vs_).free_symbols or sp.sympify(vs_).atoms(sp.vector.scalar.BaseScalar) or not close(vs_, vf_):
                    bad = True; print("point with", npt, "coordinates:", vs_, "zero-padded point:", vf_)
        gq = q[0]**2 * sp.cos(q[1]) + q[2] * q[0] + sp.sin(q[1] / 2)
        g = ScalarField.from_expression(gq, B).rebase(C)
        for u in curvs:
            X = c11.to_cart(kind, u)
            if not close(g(CartesianPoint(*X)), gq.subs(dict(zip(q, u)))): bad = True; print("field", kind, "->C", u, N(g(CartesianPoint(*X))), N(gq.subs(dict(zip(q, u)))))
except Exception as e:
    print("raised", type(e).__name__, e); bad = True
if bad:
    print("REPRODUCED"); sys.exit(1)
'''

REPLAY_REFUSE = r'''
import sys
import sympy as sp
from checks import c11
from symplyphysics.core.vectors.vectors import Vector
from symplyphysics.core.fields.scalar_field import ScalarField
from symplyphysics.core.fields.vector_field import VectorField
from symplyphysics.core.points.cartesian_point import CartesianPoint
from symplyphysics.core.points.cylinder_point import CylinderPoint
from symplyphysics.core.points.sphere_point import SpherePoint
what, a, b = {case!r}
E = c11.env()
PT = {{"CARTESIAN": CartesianPoint, "CYLINDRICAL": CylinderPoint, "SPHERICAL": SpherePoint}}
try:
    if what == "vector_rebase": Vector([1, 2, 3], E[a]).rebase(E[b])
    elif what == "field_rebase": ScalarField.from_expression(sum(E[a].coord_system.base_scalars()), E[a]).rebase(E[b])
    elif what == "scalar_field_point": ScalarField(lambda p: p.coordinate(0), E[a])(PT[b](1, 1, 1))
    else: VectorField(lambda p: [p.coordinate(0), 1, 2], E[a])(PT[b](1, 1, 1))
except (ValueError, TypeError) as e:
    print("refused:", e); sys.exit(0)
print("REPRODUCED:", what, a, b, "was answered instead of refused"); sys.exit(1)
'''


def refusals(ctx):
    from symplyphysics.core.vectors.vectors import Vector
    from symplyphysics.core.fields.scalar_field import ScalarField
    from symplyphysics.core.fields.vector_field import VectorField
    from symplyphysics.core.points.cartesian_point import CartesianPoint
    from symplyphysics.core.points.cylinder_point import CylinderPoint
    from symplyphysics.core.points.sphere_point import SpherePoint
    E = env()
    PT = {"CARTESIAN": CartesianPoint, "CYLINDRICAL": CylinderPoint, "SPHERICAL": SpherePoint}
    cases = []
    for a, b in (("CYLINDRICAL", "SPHERICAL"), ("SPHERICAL", "CYLINDRICAL")):
        cases += [("vector_rebase", a, b), ("field_rebase", a, b)]
    for a, b in itertools.permutations(PT, 2):
        cases += [("scalar_field_point", a, b), ("vector_field_point", a, b)]
    for what, a, b in cases:
        try:
            if what == "vector_rebase":
                Vector(list(sp.symbols("u1:4", real=True)), E[a]).rebase(E[b])
            elif what == "field_rebase":
                ScalarField.from_expression(sp.Function("F")(*E[a].coord_system.base_scalars()), E[a]).rebase(E[b])
            elif what == "scalar_field_point":
                ScalarField(lambda p: p.coordinate(0), E[a])(PT[b](*sp.symbols("p1:4", real=True)))
            else:
                VectorField(lambda p: [p.coordinate(0), 1, 2], E[a])(PT[b](*sp.symbols("p1:4", real=True)))
            refused = False
        except (ValueError, TypeError):
            refused = True
        name = f"refusal:{what}:{a}->{b}"
        if refused:
            ctx.ob(name, "discharged", nontrivial=False)
        else:
            ctx.violation("C11:" + name, f"{what} from {a} to/with {b} is answered instead of refused", REPLAY_REFUSE.format(case=(what, a, b)))


def run(ctx):
    timeout = 120000 if ctx.tier == "thorough" else 20000
    items = [(k, kind, timeout) for kind in ("CYLINDRICAL", "SPHERICAL") for k in ("cart_roundtrip", "curv_roundtrip", "rotated_frame", "products", "scalar_field")]
    ctx.explanation = (
        "Engine S. Real Vector.rebase (transformation tables, to_sympy_vector/express/from_sympy_vector), curvilinear dot_vectors / "
        "vector_magnitude / scale_vector, ScalarField.rebase and __call__ run on symbolic components / points and an uninterpreted field "
        "F; results (sqrt, atan2, acos, sin, cos) are translated with definitional axioms and z3 decides for ALL components and points away "
        "from the singularities: both round trips for both pairs, same geometric vector (textbook position map as oracle), curvilinear "
        "dot/magnitude/scaling equal the Cartesian ones, field value preserved in both directions with principal coordinate ranges. "
        "Refusals (cyl<->sph rebase, 6+6 mismatching point/field combinations) are enumerated completely.")
    ctx.functions_encoded = ["Vector.rebase", "CoordinateSystem.transformation_to_system", "Vector.to_sympy_vector", "Vector.from_sympy_vector", "arithmetics.dot_vectors",
                             "arithmetics.vector_magnitude", "arithmetics.scale_vector", "ScalarField.rebase", "ScalarField.__call__", "VectorField.__call__", "coordinates_transform"]
    ctx.bounds = ["Cartesian vectors/points with x^2 + y^2 > 0; curvilinear r > 0, azimuth in (-pi, pi], polar angle in (0, pi)", f"z3 timeout {timeout} ms"]
    ctx.outside = ["singular points", "angles outside the principal ranges", "field expressions are a single generic uninterpreted function of the three coordinates"]
    ctx.trusted = ["z3 nlsat", "sound trig/atan2/acos axioms of vlib/s2smt.py", "sympy.vector.express", "textbook position maps in checks/c11.py"]
    res = pmap(work, items, chunk=1)
    for rl in res:
        if isinstance(rl, dict):
            ctx.harness_errors.append(rl.get("error", "")[-300:])
            continue
        for r in rl:
            ctx.add_solver(r.get("queries", 0), r.get("solver_s", 0.0))
            if r["verdict"] == "discharged":
                ctx.ob(r["name"], "discharged", sample={"obligation": r["name"], **r["sample"]} if r.get("sample") else None)
            elif r["verdict"] in ("unencoded", "inconclusive"):
                ctx.ob(r["name"], r["verdict"], r["why"])
            else:
                ctx.violation("C11:" + r["name"], f"{r['name']}: {r['why']}", REPLAY.format(item=tuple(r["item"])))
    refusals(ctx)
