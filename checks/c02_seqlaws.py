"""C02 for the catalogue laws written with a sum over an index, `total = Sum_i x_i` or `Sum_i x_i = 0`, whose calculation function takes the x_i
as ONE sequence argument (Dalton's law, serial resistances, Kirchhoff's laws, mixture masses ...; checks/c02.py leaves sequence parameters out).

Engine L: the real function is called on a list of n lifted quantities (symbolic magnitudes, the declared dimension), n = 3, 1, 2, 4; the
returned magnitude must equal the law's right-hand side with the indexed sum written out for these n values (or minus their sum for the
"sum is zero" laws, which return the missing term) -- decided by z3 for all magnitudes.  Every judged call is preceded by an ordinary
call with ANOTHER (smaller) number of terms, so that whatever the function may keep from one call to the next shows.
"""
from __future__ import annotations

import inspect

import sympy as sp
import z3

from vlib import catalogue, lift, qspec
from vlib.lift import Session, explore, make_quantity, rebound, LiftUnsupported, VS
from vlib.par import pmap, with_timeout, ItemTimeout
from vlib.s2smt import Unencodable, model_value

LENGTHS = (3, 1, 2, 4)


def seq_functions():
    """[(module, function)]: one sequence parameter whose declared unit is an indexed symbol, law = Eq(..) over an IndexedSum of that symbol"""
    from symplyphysics.core.symbols.symbols import IndexedSymbol
    out = []
    for m in catalogue.module_names():
        try:
            mod = catalogue.load(m)
        except Exception:
            continue
        law = getattr(mod, "law", None) if getattr(mod, "law", None) is not None else getattr(mod, "definition", None)
        if not isinstance(law, sp.Equality) or not any(type(n).__name__ == "IndexedSum" for n in sp.preorder_traversal(law)):
            continue
        for f, fn in catalogue.public_functions(mod):
            if not f.startswith("calculate"):
                continue
            info = catalogue.decorator_info(fn)
            ps = list(inspect.signature(info["inner"]).parameters.items())
            if len(ps) == 1 and isinstance(info["inputs"].get(ps[0][0]), IndexedSymbol):
                out.append((m, f))
    return out


def expected_value(law, X, out_sym, values):
    """the value the law gives for these terms: right-hand side with every indexed sum over X written out; for `Sum = 0` laws minus the
    sum of the given terms (the function returns the missing one)"""
    def write_out(e):
        e = sp.sympify(e)
        if type(e).__name__ == "IndexedSum":
            summand, idx = e.args
            return sp.Add(*[summand.xreplace({X[idx]: v}) for v in values])
        if type(e).__name__ == "IndexedProduct":
            factor, idx = e.args
            return sp.Mul(*[factor.xreplace({X[idx]: v}) for v in values])
        if not e.args:
            return e
        return e.func(*[write_out(a) for a in e.args])
    if out_sym is not None and law.lhs == out_sym:
        return write_out(law.rhs)
    if law.rhs == 0 and type(law.lhs).__name__ == "IndexedSum" and law.lhs.args[0] == X[law.lhs.args[1]]:
        return -sp.Add(*values)
    return None


def check_one(item):
    from checks import c02
    from symplyphysics import Quantity as RealQuantity
    modname, fname, timeout = item
    short = modname.replace("symplyphysics.", "")
    out = []
    mod = catalogue.load(modname)
    fn = getattr(mod, fname)
    info = catalogue.decorator_info(fn)
    pname, param = list(inspect.signature(info["inner"]).parameters.items())[0]
    X = info["inputs"][pname]
    law = getattr(mod, "law", None) if getattr(mod, "law", None) is not None else getattr(mod, "definition", None)
    out_sym = info["output"] if isinstance(info["output"], sp.Symbol) else None
    plain = "Quantity" not in str(param.annotation)          # Sequence[float]: bare numbers
    dim = X.dimension
    if "int" in str(param.annotation):
        return [{"name": f"seqlaw:{short}.{fname}", "verdict": "unencoded", "why": "integer-valued terms (the lifted magnitudes are reals)"}]
    for n in LENGTHS:
        name = f"seqlaw:{short}.{fname}[{n} terms]"
        # an earlier ordinary call with another number of terms
        try:
            warm = [(2.0 + k) if plain else RealQuantity(2 + k, dimension=dim) for k in range(n - 1 if n > 1 else 2)]     # FEWER terms first
            with_timeout(lambda: fn(warm), 30)
        except (ItemTimeout, Exception):
            pass
        ses = Session(None, timeout_ms=timeout)
        ses.clear_sympy_cache = True
        ses.enc.extra_handlers.append(qspec.quantity_handler)
        with ses.active(), rebound(*c02.bindings(mod)):
            scal = [VS(f"a_{pname}{k}", positive=True) for k in range(n)]
            ses.assume += [ses.z(s) > 0 for s in scal]
            args = list(scal) if plain else [make_quantity(s, dim) for s in scal]
            want = expected_value(law, X, out_sym, scal)
            if want is None:
                out.append({"name": name, "verdict": "unencoded", "why": "law is neither `symbol = ... Sum ...` nor `Sum = 0`"})
                break
            try:
                paths = with_timeout(lambda: explore(lambda: fn(list(args)), max_paths=20), 60)
            except ItemTimeout:
                out.append({"name": name, "verdict": "unencoded", "why": "symbolic call did not finish in time"})
                continue
            except (LiftUnsupported, Unencodable, RecursionError) as e:
                out.append({"name": name, "verdict": "unencoded", "why": f"lift: {str(e)[:70]}"})
                continue
            rets = [p for p in paths if p.kind == "ret"]
            if not rets:
                why = paths[0].value if paths else "no path"
                out.append({"name": name, "verdict": "unencoded", "why": f"symbolic call raises on every path: {type(why).__name__}: {str(why)[:60]}"})
                continue
            verdict, model = "discharged", None
            for p in rets:
                res = p.value
                rs = res.scale_factor if hasattr(res, "scale_factor") else (res.expr if isinstance(res, lift.SymFloat) and res.expr is not None else res)
                try:
                    rs = c02.nice(sp.sympify(rs))
                    stray = [s for s in rs.free_symbols if not isinstance(s, VS)]
                    if stray:
                        verdict, model = "candidate", {}
                        why = f"returned value still depends on {stray}"
                        break
                    r, m = ses.check(p.pc + [ses.z(rs) != ses.z(sp.sympify(want))])
                except (Unencodable, TypeError, sp.SympifyError) as e:
                    verdict, why = "unencoded", f"{type(e).__name__}: {str(e)[:70]}"
                    break
                if r == "sat":
                    verdict, why = "candidate", f"returned {rs}, the law gives {want}"
                    model = {str(s): str(model_value(m, ses.z(s))) for s in scal}
                    break
                if r != "unsat":
                    verdict, why = "inconclusive", "unknown"
            rec = {"name": name, "verdict": verdict, "queries": ses.queries, "solver_s": ses.solver_s}
            if verdict != "discharged":
                rec["why"] = why
            if verdict == "candidate":
                rec.update(item=[modname, fname], n=n, vals=model or {})
            out.append(rec)
    return out


REPLAY = r'''
import sys, inspect
import sympy as sp
from checks import c02_seqlaws as SL
from vlib import catalogue
from symplyphysics import Quantity
modname, fname = {item!r}; n = {n!r}; vals = {vals!r}
mod = catalogue.load(modname); fn = getattr(mod, fname)
info = catalogue.decorator_info(fn)
pname, param = list(inspect.signature(info["inner"]).parameters.items())[0]
X = info["inputs"][pname]; law = getattr(mod, "law", None) if getattr(mod, "law", None) is not None else getattr(mod, "definition", None)
out_sym = info["output"] if isinstance(info["output"], sp.Symbol) else None
plain = "Quantity" not in str(param.annotation)
mk = (lambda v: float(v)) if plain else (lambda v: Quantity(v, dimension=X.dimension))
bad = False
for length in (n - 1 if n > 1 else 2, n):           # an earlier call with another (smaller) number of terms, then the judged one
    vs = [sp.Rational(vals.get(f"a_{{pname}}{{k}}", sp.Rational(3 + 2 * k, 2 + k))) for k in range(length)]
    res = fn([mk(v) for v in vs])
    got = sp.N(getattr(res, "scale_factor", res), 20); want = sp.N(SL.expected_value(law, X, out_sym, vs), 20)
    print(length, "terms", vs, "->", got, " law:", want)
    if abs(got - want) > 1e-9 * (1 + abs(want)): bad = True
if bad:
    print("REPRODUCED"); sys.exit(1)
'''


def run(ctx, timeout):
    items = [(m, f, timeout) for m, f in seq_functions()]
    ctx.extra["sequence_law_functions"] = len(items)
    seen = set()
    for rl in pmap(check_one, items, chunk=1, hard_s=240 if timeout <= 10000 else None):
        if isinstance(rl, dict):
            ctx.harness_errors.append(rl.get("error", "")[-300:])
            continue
        for r in rl:
            ctx.add_solver(r.get("queries", 0), r.get("solver_s", 0.0))
            if r["verdict"] == "discharged":
                ctx.ob(r["name"], "discharged")
            elif r["verdict"] in ("unencoded", "inconclusive"):
                ctx.ob(r["name"], r["verdict"], r.get("why"))
            else:
                key = "C02:" + r["name"].split("[")[0]          # one finding per function, whatever the number of terms it shows with
                if key in seen:
                    continue
                seen.add(key)
                ctx.violation(key, f"{r['name']}: {r['why']}", REPLAY.format(item=tuple(r["item"]), n=r["n"], vals=r["vals"]))
