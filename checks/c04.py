"""C04 - the dimension gate (engine L; part C: catalogue binding).

Part A: real assert_equivalent_dimension executed lifted over symbolic scale
        factors and symbolic 8-exponent dimension vectors (all inputs).
Part B: real validate_input / validate_output / _assert_expected_unit /
        QuantityVector.__init__ executed lifted for a generic guarded function
        under every call style.
Part C: per catalogue function: decorator keys are parameters; a solver-chosen
        wrong dimension for each guarded parameter is refused by the real
        function with an error naming that parameter.
"""
from __future__ import annotations

import inspect
import itertools
import re

import sympy as sp
import z3

from vlib import lift
from vlib.lift import (Session, explore, coverage_ok, SymDim, make_quantity, to_vec, erase_angle, vec_eq, vec_zero,
                       standard_bindings, rebound, SLOTS, LiftUnsupported)
from vlib.s2smt import model_value

LEVEL = "other"


# ---- the gate predicate of the statement (oracle) ----------------------
def gate(ses, kind, s, A, E):
    """z3 formulas (accept, typeerr, unitserr) for actual (scale s or None, vector A) against declared E.
    kind: 'qty' (s symbolic), 'dim' (dimension passed directly)"""
    A1, E1 = erase_angle(A), erase_angle(E)
    zero = (s == 0) if s is not None else z3.BoolVal(False)
    eq = vec_eq(A1, E1)
    bare = z3.And(vec_zero(A1), z3.Not(vec_zero(E1)))
    accept = z3.Or(zero, eq)
    typeerr = z3.And(z3.Not(zero), bare)
    unitserr = z3.And(z3.Not(zero), z3.Not(eq), z3.Not(bare))
    return accept, typeerr, unitserr


def outcome_matches(path, accept, typeerr, unitserr):
    from symplyphysics.core.errors import UnitsError
    if path.kind == "ret":
        return accept, "accepted"
    if isinstance(path.value, UnitsError):
        return unitserr, "UnitsError"
    if isinstance(path.value, TypeError):
        return typeerr, "TypeError"
    return None, f"unexpected {type(path.value).__name__}: {path.value}"


def model_dims(ses, m, vec):
    return [str(model_value(m, v)) for v in vec]


REPLAY_GATE = r'''
import sys
import sympy as sp
from sympy.physics import units
from symplyphysics import Quantity, dimensionless
from symplyphysics.core.dimensions import assert_equivalent_dimension
from symplyphysics.core.errors import UnitsError
from sympy.physics.units.definitions.dimension_definitions import angle as angle_type
BASE = [units.mass, units.length, units.time, units.current, units.temperature, units.amount_of_substance, units.luminous_intensity, angle_type]
def mkdim(exps):
    d = dimensionless
    for b, e in zip(BASE, exps):
        e = sp.Rational(e)
        if e != 0: d = d * b**e
    return d
arg_kind = {arg_kind!r}; exp_kind = {exp_kind!r}
s = sp.Rational({s!r}); A = {A!r}; E = {E!r}; u = sp.Rational({u!r})
dA, dE = mkdim(A), mkdim(E)
if arg_kind == "qty": arg = Quantity(s, dimension=dA)
elif arg_kind == "num": arg = s
elif arg_kind == "expr": arg = s * Quantity(1, dimension=dA)
else: arg = dA
if exp_kind == "dim": exp = dE
else: exp = Quantity(u, dimension=dE)
A1 = [sp.Rational(x) for x in A[:7]] if arg_kind != "num" else [0]*7
E1 = [sp.Rational(x) for x in E[:7]]
zero = (s == 0) and arg_kind != "dim"
if zero or A1 == E1: want = "accepted"
elif all(x == 0 for x in A1): want = "TypeError"
else: want = "UnitsError"
try:
    assert_equivalent_dimension(arg, "p", "f", exp); got = "accepted"
except UnitsError: got = "UnitsError"
except TypeError: got = "TypeError"
except Exception as e: got = "unexpected " + type(e).__name__
print("arg", arg_kind, s, A, "expected", exp_kind, E, "-> got", got, "want", want)
if got != want:
    print("REPRODUCED"); sys.exit(1)
'''


def part_a(ctx):
    from symplyphysics.core.dimensions import dimensions as DM
    from symplyphysics.core.dimensions.dimensions import any_dimension
    from symplyphysics.core.errors import UnitsError
    n_ob = 0
    for arg_kind, exp_kind in itertools.product(["qty", "num", "expr", "dim"], ["dim", "unit"]):
        ses = Session(ctx)
        with ses.active(), rebound(*standard_bindings()):
            s = ses.scalar("s")
            u = ses.scalar("u")
            A = ses.dim("A")
            E = ses.dim("E")
            sz, uz = ses.z(s), ses.z(u)
            if arg_kind == "qty":
                arg = make_quantity(s, A)
                Avec = A.vec
            elif arg_kind == "expr":
                arg = s * make_quantity(sp.S.One, A)      # number * unit: an expression the gate must collect
                Avec = A.vec
            elif arg_kind == "num":
                arg = s
                Avec = [z3.RealVal(0)] * len(SLOTS)
            else:
                arg = A
                Avec = A.vec
            if exp_kind == "dim":
                exp = E
            elif exp_kind == "unit":
                exp = make_quantity(u, E)
                ses.assume.append(uz != 0)        # a unit has a non-zero scale (u = 0 is outside the statement)
            else:
                exp = any_dimension
            name = f"A:{arg_kind}-vs-{exp_kind}"
            try:
                paths = explore(lambda: DM.assert_equivalent_dimension(arg, "p", "f", exp))
            except LiftUnsupported as e:
                ctx.ob(name, "unencoded", str(e))
                continue
            cov = coverage_ok(paths)
            if cov != "covered":
                ctx.ob(name + ":coverage", "inconclusive", f"path conditions do not provably cover the input space ({cov})")
            else:
                ctx.ob(name + ":coverage", "discharged", sample={"harness": name, "paths": [(p.describe(), len(p.pc)) for p in paths]})
            if exp_kind == "any":
                acc, te, ue = z3.BoolVal(True), z3.BoolVal(False), z3.BoolVal(False)
            else:
                acc, te, ue = gate(ses, arg_kind, sz if arg_kind != "dim" else None, Avec, E.vec)
            seen_outcomes = set()
            for i, p in enumerate(paths):
                spec, label = outcome_matches(p, acc, te, ue)
                seen_outcomes.add(label)
                pname = f"{name}:path{i}:{label}"
                if spec is None:
                    r, m = ses.check(p.pc)
                else:
                    r, m = ses.check(p.pc + [z3.Not(spec)])
                    # reachability twin: the path itself is satisfiable
                    rr, _ = ses.check(p.pc)
                    if rr != "sat":
                        ctx.ob(pname + ":reach", "inconclusive", "path condition not shown satisfiable")
                if r == "unsat" and spec is not None:
                    ctx.ob(pname, "discharged")
                elif r == "sat":
                    vals = dict(arg_kind=arg_kind, exp_kind=exp_kind, s=str(model_value(m, sz)), u=str(model_value(m, uz)) if exp_kind == "unit" else "1",
                                A=model_dims(ses, m, Avec), E=model_dims(ses, m, E.vec) if exp_kind != "any" else ["0"] * 8)
                    if exp_kind == "any":
                        ctx.ob(pname, "inconclusive", "unexpected outcome against any_dimension")
                    else:
                        ctx.violation(f"C04:A:{arg_kind}-vs-{exp_kind}:{label}", f"gate outcome {label} contradicts the statement for {vals}",
                                      REPLAY_GATE.format(**vals))
                else:
                    ctx.ob(pname, "inconclusive", "unknown")
            # magnitude independence: the outcome label is a function of (s == 0, A, E) only -- follows from the per-path specs
            # above being s-free except for the zero test; record which outcomes were reached
            ctx.extra.setdefault("A_outcomes", {})[name] = sorted(seen_outcomes)
    # concrete special values (finite enumeration, reported as such)
    from sympy.physics import units
    for val, must_accept in [(sp.S.Zero, True), (sp.oo, True), (-sp.oo, True), (sp.nan, True), (0.0, True), (sp.Integer(3), False), (-2.5, False)]:
        for exp in (units.length, units.energy, units.temperature / units.time):
            try:
                DM.assert_equivalent_dimension(val, "p", "f", exp)
                got = True
            except (TypeError, UnitsError) as e:
                got = False
                err = type(e).__name__
            nm = f"A:special:{val}-vs-{exp.name}"
            if got == must_accept and (got or err == "TypeError"):
                ctx.ob(nm, "discharged", nontrivial=False)
            else:
                ctx.violation(f"C04:A:special:{val}", f"{val!r} against {exp}: accepted={got}, expected accepted={must_accept} (TypeError otherwise)",
                              REPLAY_SPECIAL.format(val=repr(val) if not isinstance(val, sp.Basic) else f"sp.sympify('{sp.srepr(val)}')", must=must_accept))


REPLAY_SPECIAL = r'''
import sys
import sympy as sp
from sympy import *
from sympy.physics import units
from symplyphysics.core.dimensions import assert_equivalent_dimension
from symplyphysics.core.errors import UnitsError
val = {val}; must = {must}
bad = False
for exp in (units.length, units.energy, units.temperature / units.time):
    try:
        assert_equivalent_dimension(val, "p", "f", exp); got = True; err = None
    except (TypeError, UnitsError) as e:
        got = False; err = type(e).__name__
    print(val, exp, "accepted" if got else err)
    if got != must or (not got and err != "TypeError"): bad = True
if bad:
    print("REPRODUCED"); sys.exit(1)
'''


# ---- part B -------------------------------------------------------------
REPLAY_WIRING = r'''
import sys
import sympy as sp
from sympy.physics import units
from symplyphysics import Quantity, dimensionless, validate_input, validate_output
from symplyphysics.core.errors import UnitsError
from sympy.physics.units.definitions.dimension_definitions import angle as angle_type
BASE = [units.mass, units.length, units.time, units.current, units.temperature, units.amount_of_substance, units.luminous_intensity, angle_type]
def mkdim(exps):
    d = dimensionless
    for b, e in zip(BASE, exps):
        e = sp.Rational(e)
        if e != 0: d = d * b**e
    return d
style = {style!r}; seq = {seq!r}; opt = {opt!r}; first = {first!r}
E = {E!r}        # declared dimensions of a, b, c, return (exponent vectors; last slot = angle)
D = {D!r}        # actual (scale, exponent vector) of a, every b, c, returned value
def mk(sd): return Quantity(sp.Rational(sd[0]), dimension=mkdim(sd[1]))
def passes(sd, e): return sp.Rational(sd[0]) == 0 or [sp.Rational(x) for x in sd[1][:7]] == [sp.Rational(x) for x in e[:7]]
a_ok = passes(D["a"], E["a"]); b_oks = [passes(x, E["b"]) for x in D["b"]]; c_ok = passes(D["c"], E["c"]); r_ok = passes(D["r"], E["r"])
entered = []
def body():
    entered.append(1)
    return mk(D["r"])
if opt:
    # an unguarded optional parameter stands before a guarded one and is left out by keyword-style callers
    @validate_input(a=mkdim(E["a"]), b=mkdim(E["b"]), c=mkdim(E["c"]))
    @validate_output(mkdim(E["r"]))
    def f(a, k=7, b=None, *, c): return body()
else:
    @validate_input(a=mkdim(E["a"]), b=mkdim(E["b"]), c=mkdim(E["c"]))
    @validate_output(mkdim(E["r"]))
    def f(a, b, *, c): return body()
a = mk(D["a"]); c = mk(D["c"])
b = [mk(x) for x in D["b"]] if seq else mk(D["b"][0])
want_enter = a_ok and all(b_oks) and c_ok
want_return = want_enter and r_ok
if first:
    # an earlier call with arguments of the same dimensions but other magnitudes
    try: f(mk(first["a"]), mk(first["b"]), c=mk(first["c"])); print("earlier call returned")
    except (TypeError, UnitsError) as e: print("earlier call refused:", e)
    entered.clear()
try:
    if style == "positional": f(a, 7, b, c=c) if opt else f(a, b, c=c)
    elif style == "keyword": f(a=a, b=b, c=c)
    elif style == "reordered": f(c=c, b=b, a=a)
    else: f(a, c=c, b=b)
    returned = True; msg = ""
except (TypeError, UnitsError) as e:
    returned = False; msg = str(e)
print("style", style, "optional-before-guarded", opt, "entered", bool(entered), "returned", returned, msg)
print("declared", E); print("actual", D); print("want entered", want_enter, "want returned", want_return)
bad = (bool(entered) != want_enter) or (returned != want_return)
if not returned and not bad:
    # the error must name a parameter that really fails
    failing = ([] if a_ok else ["'a'"]) + ([f"'b[{{i}}]'" if seq else "'b'" for i, ok in enumerate(b_oks) if not ok]) + ([] if c_ok else ["'c'"]) + ([] if (r_ok or not want_enter) else ["'return'"])
    if not any(nm in msg for nm in failing): bad = True; print("error does not name a failing parameter:", failing)
if bad:
    print("REPRODUCED"); sys.exit(1)
'''


def part_b(ctx):
    from symplyphysics.core import quantity_decorator as QD
    from symplyphysics.core.errors import UnitsError
    from symplyphysics.core.dimensions import dimensions as DM
    styles = ["positional", "keyword", "reordered", "mixed"]
    seq_lens = [None, 0, 1, 2, 3] if ctx.tier == "thorough" else [None, 0, 2]
    for style, blen, opt, hist in itertools.product(styles, seq_lens, [False, True], [False, True]):
        if opt and blen not in (None, 2):
            continue
        if hist and (style != "positional" or blen is not None or opt):
            continue
        ses = Session(ctx)
        name = f"B:{style}:b={'scalar' if blen is None else 'seq' + str(blen)}" + (":optional-before-guarded" if opt else "") + (":after-an-earlier-call" if hist else "")
        with ses.active(), rebound(*standard_bindings()):
            Ea, Eb, Ec, Er = (ses.dim(n) for n in ("Ea", "Eb", "Ec", "Er"))
            mk = lambda stem: make_quantity(ses.scalar(stem), ses.dim("D" + stem))
            a, c, r = mk("a"), mk("c"), mk("r")
            b = mk("b") if blen is None else [mk(f"b{i}_") for i in range(blen)]
            entered = []
            if hist:
                # an earlier call of the same function with arguments of the SAME dimensions but other magnitudes (a zero magnitude is
                # admitted whatever its dimension): the verdict on the second call must not depend on it
                a0, b0, c0 = (make_quantity(ses.scalar(n + "_first"), q_.dimension) for n, q_ in (("a", a), ("b", b), ("c", c)))

            if opt:
                def raw(a, k=7, b=None, *, c):
                    entered.append(True)
                    return r
            else:
                def raw(a, b, *, c):
                    entered.append(True)
                    return r
            runs = itertools.count()

            def call():
                # decorated afresh, under a fresh name, for every explored run: whatever a decorator may remember between calls then
                # comes from THIS run's calls only, as in a fresh process (the replay), never from a previously explored path
                raw.__name__ = raw.__qualname__ = f"guarded_{next(runs)}"
                f = QD.validate_input(a=Ea, b=Eb, c=Ec)(QD.validate_output(Er)(raw))
                if hist:
                    try:
                        f(a0, b0, c=c0)
                    except (TypeError, UnitsError):
                        pass
                entered.clear()
                if style == "positional":
                    return f(a, 7, b, c=c) if opt else f(a, b, c=c)
                if style == "keyword":
                    return f(a=a, b=b, c=c)
                if style == "reordered":
                    return f(c=c, b=b, a=a)
                return f(a, c=c, b=b)

            results = []

            def body():
                try:
                    v = call()
                    results.append((bool(entered), "ret", None))
                    return v
                except BaseException as e:
                    if isinstance(e, lift.Abort):
                        raise
                    results.append((bool(entered), "exc", e))
                    raise
            try:
                paths = explore(body)
            except LiftUnsupported as e:
                ctx.ob(name, "unencoded", str(e))
                continue
            # results[] is appended once per completed run, in the same order as paths
            if len(results) != len(paths):
                ctx.ob(name, "inconclusive", "run/outcome bookkeeping mismatch")
                continue
            cov = coverage_ok(paths)
            ctx.ob(name + ":coverage", "discharged" if cov == "covered" else "inconclusive", cov,
                   sample={"harness": name, "paths": len(paths)})

            def P(qty, E):
                acc, _, _ = gate(ses, "qty", ses.z(qty.scale_factor), to_vec(qty.dimension), E.vec)
                return acc
            items = [("a", a, Ea)] + ([("b", b, Eb)] if blen is None else [(f"b[{i}]", x, Eb) for i, x in enumerate(b)]) + [("c", c, Ec)]
            pass_in = {nm: P(qv_, E) for nm, qv_, E in items}
            all_in = z3.And(list(pass_in.values())) if pass_in else z3.BoolVal(True)
            pass_out = P(r, Er)
            for i, (p, (ent, kind, exc)) in enumerate(zip(paths, results)):
                pname = f"{name}:path{i}"
                if kind == "exc" and not isinstance(exc, (TypeError, UnitsError)):
                    spec = z3.BoolVal(False)
                    label = f"unexpected {type(exc).__name__}"
                else:
                    conj = [all_in if ent else z3.Not(all_in)]
                    if kind == "ret":
                        conj.append(pass_out)
                        label = "returned"
                    else:
                        label = "refused"
                        if ent:
                            conj.append(z3.Not(pass_out))
                        mm = re.search(r"Argument '([^']+)'", str(exc))
                        named = mm.group(1) if mm else None
                        if named in pass_in:
                            conj.append(z3.Not(pass_in[named]))
                        elif named == "return":
                            conj.append(z3.Not(pass_out))
                        else:
                            conj.append(z3.BoolVal(False))
                            label = f"refused without naming a parameter ({named})"
                    spec = z3.And(conj)
                rch, _ = ses.check(p.pc)
                if rch != "sat":
                    ctx.ob(pname + ":reach", "inconclusive", "unreachable/unknown path")
                    continue
                res, m = ses.check(p.pc + [z3.Not(spec)])
                if res == "unsat":
                    ctx.ob(pname, "discharged")
                elif res == "sat":
                    mv = lambda z: str(model_value(m, z))
                    sd = lambda qq: (mv(ses.z(qq.scale_factor)), [mv(x) for x in to_vec(qq.dimension)])
                    vals = dict(style=style, seq=blen is not None, opt=opt, first=({"a": sd(a0), "b": sd(b0), "c": sd(c0)} if hist else None),
                                E={"a": model_dims(ses, m, Ea.vec), "b": model_dims(ses, m, Eb.vec), "c": model_dims(ses, m, Ec.vec), "r": model_dims(ses, m, Er.vec)},
                                D={"a": sd(a), "b": [sd(x) for x in (b if blen is not None else [b])], "c": sd(c), "r": sd(r)})
                    ctx.violation(f"C04:B:{style}:{'seq' if blen is not None else 'scalar'}{':opt' if opt else ''}{':history' if hist else ''}:{label}",
                                  f"decorator wiring: path {label} (entered={ent}) contradicts the gate predicate; {vals}", REPLAY_WIRING.format(**vals))
                else:
                    ctx.ob(pname, "inconclusive", "unknown")
    part_b_vectors(ctx)
    part_b_outputs(ctx)
    part_b_vector_argument(ctx)
    part_b_extreme(ctx)


REPLAY_QVEC = r'''
import sys
import sympy as sp
from sympy.physics import units
from symplyphysics import Quantity, dimensionless
from symplyphysics.core.errors import UnitsError
from symplyphysics.core.vectors.vectors import QuantityVector
from symplyphysics.core.coordinate_systems.coordinate_systems import CoordinateSystem
from sympy.physics.units.definitions.dimension_definitions import angle as angle_type
BASE = [units.mass, units.length, units.time, units.current, units.temperature, units.amount_of_substance, units.luminous_intensity, angle_type]
def mkdim(exps):
    d = dimensionless
    for b, e in zip(BASE, exps):
        e = sp.Rational(e)
        if e != 0: d = d * b**e
    return d
kind = {kind!r}; comps_model = {comps!r}; D = {D!r}          # components: (scale, exponent vector); D: declared exponent vector
cs = CoordinateSystem(getattr(CoordinateSystem.System, kind))
comps = [Quantity(sp.Rational(s), dimension=mkdim(d)) for s, d in comps_model]
def passes(i, s, d):
    want = ["0"] * 8 if CoordinateSystem.is_angle_component(cs.coord_system_type, i) else D
    return sp.Rational(s) == 0 or [sp.Rational(x) for x in d[:7]] == [sp.Rational(x) for x in want[:7]]
want = all(passes(i, s, d) for i, (s, d) in enumerate(comps_model))
try:
    QuantityVector(comps, cs, dimension=mkdim(D)); got = True; msg = ""
except (TypeError, UnitsError) as e:
    got = False; msg = str(e)
print(kind, "components", comps_model, "declared", D, "-> constructed" if got else "-> refused " + msg, "| want constructed:", want)
if got != want:
    print("REPRODUCED"); sys.exit(1)
'''


REPLAY_SAME = r'''
import sys
import sympy as sp
from sympy.physics import units
from symplyphysics import Quantity, dimensionless, validate_output
from symplyphysics.core.quantity_decorator import validate_output_same
from symplyphysics.core.errors import UnitsError
from sympy.physics.units.definitions.dimension_definitions import angle as angle_type
BASE = [units.mass, units.length, units.time, units.current, units.temperature, units.amount_of_substance, units.luminous_intensity, angle_type]
def mkdim(exps):
    d = dimensionless
    for b, e in zip(BASE, exps):
        e = sp.Rational(e)
        if e != 0: d = d * b**e
    return d
kind = {kind!r}; a = {a!r}; r = {r!r}; ret = {ret!r}; declared = {declared!r}
def passes(sd, e): return sp.Rational(sd[0]) == 0 or [sp.Rational(x) for x in sd[1][:7]] == [sp.Rational(x) for x in e[:7]]
if kind == "same":
    @validate_output_same("a")
    def f(a): return Quantity(sp.Rational(r[0]), dimension=mkdim(r[1]))
    want = passes(r, a[1])
    call = lambda: f(Quantity(sp.Rational(a[0]), dimension=mkdim(a[1])))
else:
    @validate_output(mkdim(declared))
    def f(): return ret
    want = (ret == 0) or all(sp.Rational(x) == 0 for x in declared[:7])
    call = f
try:
    call(); got = True; msg = ""
except (TypeError, UnitsError) as e:
    got = False; msg = f"{{type(e).__name__}}: {{e}}"
print(kind, "argument", a, "result", r if kind == "same" else repr(ret), "declared", declared, "-> returned" if got else "-> refused", msg, "| want returned:", want)
if got != want:
    print("REPRODUCED"); sys.exit(1)
'''


def part_b_outputs(ctx):
    """validate_output_same (the result must have the dimension of a named argument, whatever that argument's magnitude) and plain Python
    numbers returned from a function whose declared result is dimensional"""
    from symplyphysics.core import quantity_decorator as QD
    from symplyphysics.core.errors import UnitsError
    from sympy.physics import units
    ses = Session(ctx)
    name = "B:validate_output_same"
    with ses.active(), rebound(*standard_bindings()):
        a = make_quantity(ses.scalar("a"), ses.dim("Da"))
        r = make_quantity(ses.scalar("r"), ses.dim("Dr"))
        runs = itertools.count()

        def call():
            def raw(a):
                return r
            raw.__name__ = raw.__qualname__ = f"same_{next(runs)}"
            return QD.validate_output_same("a")(raw)(a)
        try:
            paths = explore(call)
        except LiftUnsupported as e:
            ctx.ob(name, "unencoded", str(e))
            paths = []
        if paths:
            cov = coverage_ok(paths)
            ctx.ob(name + ":coverage", "discharged" if cov == "covered" else "inconclusive", cov)
            acc, _, _ = gate(ses, "qty", ses.z(r.scale_factor), to_vec(r.dimension), to_vec(a.dimension))
            for i, p in enumerate(paths):
                if p.kind == "ret":
                    spec = acc
                elif isinstance(p.value, (TypeError, UnitsError)):
                    spec = z3.Not(acc)
                else:
                    spec = z3.BoolVal(False)
                res, m = ses.check(p.pc + [z3.Not(spec)])
                if res == "unsat":
                    ctx.ob(f"{name}:path{i}", "discharged")
                elif res == "sat":
                    mv = lambda z: str(model_value(m, z))
                    sd = lambda qq: (mv(ses.z(qq.scale_factor)), [mv(x) for x in to_vec(qq.dimension)])
                    ctx.violation(f"C04:B:output_same:{p.describe()}", f"validate_output_same: {p.describe()} contradicts 'the result has the dimension of the named argument' (a={sd(a)}, result={sd(r)})",
                                  REPLAY_SAME.format(kind="same", a=sd(a), r=sd(r), ret=None, declared=None))
                else:
                    ctx.ob(f"{name}:path{i}", "inconclusive", "unknown")
    # plain numbers as results (finite enumeration, concrete): non-zero -> TypeError, zero -> accepted
    L8 = ["0", "1", "0", "0", "0", "0", "0", "0"]
    E8 = ["1", "2", "-5/2", "0", "0", "0", "0", "0"]
    for declared, dn in ((L8, "length"), (E8, "energy/sqrt(time)")):
        for ret in (100, 2.5, -7, 0, 0.0, sp.Integer(3), sp.Rational(1, 2), sp.Float(1.5)):
            dim = mkdim_real(declared)

            def fn(ret=ret):
                return ret
            try:
                QD.validate_output(dim)(fn)()
                got = True
            except (TypeError, UnitsError):
                got = False
            want = ret == 0
            nm = f"B:bare-number-result:{ret!r}:{dn}"
            if got == want:
                ctx.ob(nm, "discharged", nontrivial=False)
            else:
                ctx.violation(f"C04:B:bare-number-result:{type(ret).__name__}", f"a function declared to return {dn} returned the bare number {ret!r} and the validator {'let it through' if got else 'refused it'}",
                              REPLAY_SAME.format(kind="bare", a=None, r=None, ret=ret if not isinstance(ret, sp.Basic) else float(ret), declared=declared))


REPLAY_VECARG = r'''
import sys
import sympy as sp
from sympy.physics import units
from symplyphysics import Quantity, validate_input
from symplyphysics.core.errors import UnitsError
from symplyphysics.core.vectors.vectors import QuantityVector
scales = {scales!r}; own = {own!r}
entered = []
@validate_input(v=units.length)
def f(v):
    entered.append(1); return 1
v = QuantityVector([Quantity(sp.Rational(x), dimension=getattr(units, own)) for x in scales])
want = own == "length" or all(sp.Rational(x) == 0 for x in scales)
try:
    f(v); got = True; msg = ""
except (TypeError, UnitsError) as e:
    got = False; msg = str(e)
print("vector", scales, own, "declared length ->", "entered" if got else "refused " + msg, "| want entered:", want)
if got != want:
    print("REPRODUCED"); sys.exit(1)
'''


EXTREME_SRC = r"""
import sympy as sp
from sympy.physics import units
from symplyphysics import Quantity, validate_input, validate_output
from symplyphysics.core.dimensions import assert_equivalent_dimension
from symplyphysics.core.errors import UnitsError
from symplyphysics.core.vectors.vectors import QuantityVector
def extreme_bad():
    # "the verdict never depends on the magnitude": non-zero magnitudes far outside the range of a machine double (exact rationals and
    # arbitrary-precision floats, 1e-400 .. 1e400) are still non-zero.  A finite list, executed concretely: the lifted runs know a magnitude
    # only as a real number and cannot see a conversion to float inside the code
    bad = []
    tiny = [sp.Rational(1, 10**400), sp.Float("1e-400", 30), sp.Rational(-1, 10**330), sp.Rational(7, 10**324)]
    huge = [sp.Integer(10)**400, sp.Float("-1e400", 30)]
    entered = []
    @validate_input(a=units.length)
    @validate_output(units.length)
    def same(a):
        entered.append(1); return a
    @validate_input(a=units.length)
    def seq(a):
        entered.append(1); return 0
    @validate_output(units.length)
    def out(x):
        return x
    def outcome(call):
        try:
            call(); return "accepted"
        except UnitsError: return "UnitsError"
        except TypeError: return "TypeError"
        except Exception as e: return "raised " + type(e).__name__
    for m in tiny + huge:
        lab = str(sp.N(m, 4))
        q_len, q_time = Quantity(m * units.meter), Quantity(m * units.second)
        cases = [("bare number for a length", lambda: assert_equivalent_dimension(m, "p", "f", units.length), "TypeError"),
                 ("time quantity for a length (assert_equivalent_dimension)", lambda: assert_equivalent_dimension(q_time, "p", "f", units.length), "UnitsError"),
                 ("length quantity for a length", lambda: same(q_len), "accepted"),
                 ("time quantity for a length (positional)", lambda: same(q_time), "UnitsError"),
                 ("time quantity for a length (keyword)", lambda: same(a=q_time), "UnitsError"),
                 ("bare number for a length (decorated)", lambda: same(m), "TypeError"),
                 ("sequence element of another dimension", lambda: seq([Quantity(1 * units.meter), q_time]), "UnitsError"),
                 ("vector component of another dimension", lambda: seq(QuantityVector([Quantity(1 * units.second), q_time], dimension=units.time)), "UnitsError"),
                 ("result of another dimension", lambda: out(q_time), "UnitsError"),
                 ("bare-number result", lambda: out(m), "TypeError")]
        for what, call, want in cases:
            got = outcome(call)
            if got != want:
                bad.append(f"magnitude {lab}: {what}: {got}, expected {want}")
        if not sp.sympify(q_time.dimension).equals(units.time) and q_time.dimension != units.time:
            bad.append(f"magnitude {lab}: Quantity(m*second) has dimension {q_time.dimension}")
    # vector components that are zero, infinite or NaN match anything, like scalars do: such a vector is built and passes a length guard
    one_m = Quantity(1 * units.meter)
    for lab, mkc in (("oo m", lambda: Quantity(sp.oo * units.meter)), ("-oo s", lambda: Quantity(-sp.oo * units.second)), ("nan", lambda: Quantity(sp.nan)), ("0.0 s", lambda: Quantity(0.0 * units.second)),
                     ("0 s", lambda: Quantity(0 * units.second)), ("oo (bare)", lambda: Quantity(sp.oo))):
        for order in (0, 1):
            def build():
                comps = [one_m, mkc()] if order == 0 else [mkc(), one_m]
                return QuantityVector(comps)
            got = outcome(lambda: seq(build()))
            if got != "accepted":
                bad.append(f"vector [1 m, {lab}] (special component {'last' if order == 0 else 'first'}) for a length: {got}, expected accepted")
        got = outcome(lambda: seq(QuantityVector([Quantity(1 * units.second), mkc()])))
        if got != "UnitsError":
            bad.append(f"vector [1 s, {lab}] for a length: {got}, expected UnitsError")
    # arguments that are dimensioned SYMBOLS of the library (a Symbol, an unapplied Function, an IndexedSymbol) carry a dimension too and go
    # through the same gate: the declared one is accepted, another one refused with a units error (scalar, keyword, sequence element, result)
    from symplyphysics import Symbol, Function, IndexedSymbol
    ref = Symbol("r", units.time)
    for kind, mk in (("Symbol", lambda d: Symbol("x", d)), ("Function", lambda d: Function("F", [ref], d)), ("IndexedSymbol", lambda d: IndexedSymbol("i", None, d))):
        good, wrong = mk(units.length), mk(units.time)
        for what, call, want in ((f"{kind} of the declared dimension", lambda: same(good), "accepted"), (f"{kind} of another dimension (positional)", lambda: same(wrong), "UnitsError"),
                                 (f"{kind} of another dimension (keyword)", lambda: same(a=wrong), "UnitsError"),
                                 (f"{kind} of another dimension as a sequence element", lambda: seq([Quantity(1 * units.meter), wrong]), "UnitsError"),
                                 (f"{kind} of the declared dimension as a sequence element", lambda: seq([good, Quantity(1 * units.meter)]), "accepted"),
                                 (f"{kind} of another dimension as the result", lambda: out(wrong), "UnitsError"), (f"{kind} of the declared dimension as the result", lambda: out(good), "accepted")):
            got = outcome(call)
            if got != want:
                bad.append(f"{what}: {got}, expected {want}")
    return bad
"""


def part_b_extreme(ctx):
    ns = {}
    exec(EXTREME_SRC, ns)
    bad = ns["extreme_bad"]()
    if bad:
        ctx.violation("C04:B:extreme-magnitudes", "; ".join(bad[:4]) + f" ({len(bad)} cases)", EXTREME_SRC + "\nimport sys\nb = extreme_bad()\nprint(b[:8])\nif b:\n    print('REPRODUCED'); sys.exit(1)\n")
    else:
        ctx.ob("B:non-zero magnitudes outside the double range (1e-400 .. 1e400) get the verdict of any other non-zero magnitude (6 magnitudes x 10 gate situations); dimensioned symbols / functions / indexed symbols as arguments and results (21 situations)", "discharged", nontrivial=False)


def part_b_vector_argument(ctx):
    """a QuantityVector passed to a guarded parameter: every component must have the declared dimension unless it is zero; in
    particular components that merely CANCEL (3 s, -3 s, 0 s) are not zeros.  Symbolic magnitudes (lifted) and distinguished
    concrete ones (a structural `sum == 0` never fires on symbols)"""
    from symplyphysics.core import quantity_decorator as QD
    from symplyphysics.core.errors import UnitsError
    from symplyphysics.core.vectors import vectors as VV
    from sympy.physics import units
    from symplyphysics import Quantity as RealQuantity
    # concrete
    for own in ("time", "length"):
        for scales in (["3", "-3", "0"], ["1", "1", "-2"], ["0", "0", "0"], ["2", "0", "0"], ["1/2", "-1/2"], ["0", "0"]):
            entered = []

            def raw(v):
                entered.append(1)
                return 1
            f = QD.validate_input(v=units.length)(raw)
            try:
                v = VV.QuantityVector([RealQuantity(sp.Rational(x), dimension=getattr(units, own)) for x in scales])
                f(v)
                got = True
            except (TypeError, UnitsError):
                got = False
            want = own == "length" or all(sp.Rational(x) == 0 for x in scales)
            nm = f"B:vector-argument:{own}:{','.join(scales)}"
            if got == want:
                ctx.ob(nm, "discharged", nontrivial=False)
            else:
                ctx.violation(f"C04:B:vector-argument:{own}:{','.join(scales)}", f"a vector of {own} components {scales} passed where a length vector is declared was {'admitted' if got else 'refused'}",
                              REPLAY_VECARG.format(scales=scales, own=own))
    # lifted: symbolic magnitudes, symbolic own and declared dimensions
    ses = Session(ctx)
    name = "B:vector-argument:symbolic"
    with ses.active(), rebound(*standard_bindings()):
        Dv, E = ses.dim("Dv"), ses.dim("Ev")
        ss = [ses.scalar(f"c{i}") for i in range(3)]
        entered = []

        def call():
            entered.clear()

            def raw(v):
                entered.append(1)
                return 1
            v = VV.QuantityVector([make_quantity(x, Dv) for x in ss])
            return QD.validate_input(v=E)(raw)(v)
        try:
            paths = explore(call, max_paths=200)
        except LiftUnsupported as e:
            ctx.ob(name, "unencoded", str(e))
            return
        allzero = z3.And([ses.z(x) == 0 for x in ss])
        ok = z3.Or(allzero, vec_eq(erase_angle(Dv.vec), erase_angle(E.vec)))
        for i, p in enumerate(paths):
            spec = ok if p.kind == "ret" else (z3.Not(ok) if isinstance(p.value, (TypeError, UnitsError)) else z3.BoolVal(False))
            res, m = ses.check(p.pc + [z3.Not(spec)])
            if res == "unsat":
                ctx.ob(f"{name}:path{i}", "discharged")
            elif res == "sat":
                ctx.ob(f"{name}:path{i}", "inconclusive", "symbolic candidate (not replayed): " + p.describe()[:60])
            else:
                ctx.ob(f"{name}:path{i}", "inconclusive", "unknown")


def mkdim_real(exps):
    from sympy.physics import units
    from symplyphysics import dimensionless
    from sympy.physics.units.definitions.dimension_definitions import angle as angle_type
    base = [units.mass, units.length, units.time, units.current, units.temperature, units.amount_of_substance, units.luminous_intensity, angle_type]
    d = dimensionless
    for b, e in zip(base, exps):
        e = sp.Rational(e)
        if e != 0:
            d = d * b**e
    return d


def part_b_vectors(ctx):
    """QuantityVector.__init__: every component checked against the vector's dimension (angle components against angle)."""
    from symplyphysics.core.vectors import vectors as VV
    from symplyphysics.core.errors import UnitsError
    from symplyphysics.core.coordinate_systems.coordinate_systems import CoordinateSystem
    from sympy.physics.units.definitions.dimension_definitions import angle as angle_type
    proxy = lift.DimSysProxy()
    for kind in ("CARTESIAN", "CYLINDRICAL", "SPHERICAL"):
        for n in ((3,) if ctx.tier == "quick" else (1, 2, 3)):
            ses = Session(ctx)
            name = f"B:QuantityVector:{kind}:{n}"
            with ses.active(), rebound(*standard_bindings()):
                cs = CoordinateSystem(getattr(CoordinateSystem.System, kind))
                D = ses.dim("Dv")
                comps = [make_quantity(ses.scalar(f"v{i}_"), ses.dim(f"Dc{i}_")) for i in range(n)]
                try:
                    paths = explore(lambda: VV.QuantityVector(comps, cs, dimension=D))
                except LiftUnsupported as e:
                    ctx.ob(name, "unencoded", str(e))
                    continue
                cov = coverage_ok(paths)
                ctx.ob(name + ":coverage", "discharged" if cov == "covered" else "inconclusive", cov)
                oks = []
                for i, c in enumerate(comps):
                    is_ang = CoordinateSystem.is_angle_component(cs.coord_system_type, i)
                    E = [z3.RealVal(0)] * len(SLOTS) if is_ang else D.vec
                    acc, _, _ = gate(ses, "qty", ses.z(c.scale_factor), to_vec(c.dimension), E)
                    oks.append(acc)
                allok = z3.And(oks)
                for i, p in enumerate(paths):
                    pname = f"{name}:path{i}"
                    if p.kind == "ret":
                        spec = allok
                    elif isinstance(p.value, (TypeError, UnitsError)):
                        spec = z3.Not(allok)
                    else:
                        spec = z3.BoolVal(False)
                    res, m = ses.check(p.pc + [z3.Not(spec)])
                    if res == "unsat":
                        ctx.ob(pname, "discharged")
                    elif res == "sat":
                        okv = [bool(z3.is_true(m.eval(o, model_completion=True))) for o in oks]
                        mv = lambda z: str(model_value(m, z))
                        cm = [(mv(ses.z(c.scale_factor)), [mv(x) for x in to_vec(c.dimension)]) for c in comps]
                        ctx.violation(f"C04:B:QuantityVector:{kind}:{p.describe()}", f"QuantityVector construction {p.describe()} contradicts component gate: ok={okv}, components {cm}",
                                      REPLAY_QVEC.format(kind=kind, comps=cm, D=[mv(x) for x in D.vec]))
                    else:
                        ctx.ob(pname, "inconclusive", "unknown")


def run(ctx):
    ctx.explanation = (
        "Engine L (LiftExec). Part A: the real assert_equivalent_dimension runs natively on a quantity/number/expression/"
        "dimension whose scale factor is a z3 Real and whose dimension is a vector of 8 z3 Reals, against a declared "
        "dimension/unit/any_dimension; the branch predicates (is_any_dimension, dimsys_SI.equivalent_dims/is_dimensionless) "
        "fork; for every path z3 decides pc AND NOT spec(outcome) where spec is the gate predicate of the statement "
        "(accept <=> s=0 or A'=E'; TypeError <=> s!=0, A'=0, E'!=0; UnitsError otherwise), and that the paths cover the input "
        "space. Part B: the real validate_input/validate_output/_assert_expected_unit/QuantityVector.__init__ run lifted for a "
        "generic guarded function f(a, b, *, c) in 4 call styles with scalar and sequence arguments. Part C: catalogue binding.")
    ctx.functions_encoded = ["dimensions.assert_equivalent_dimension", "collect_quantity.collect_quantity_factor_and_dimension (+_collect_*)",
                             "quantity_decorator._assert_expected_unit", "quantity_decorator.validate_input", "quantity_decorator.validate_output",
                             "vectors.QuantityVector.__init__"]
    ctx.stubs = list(lift.STANDARD_STUBS)
    ctx.bounds = ["Part A/B: all real scale factors, all real exponent vectors over 7 SI base dimensions + angle",
                  "sequence arguments of length 0..3 (quick: 0 and 2), vectors of 3 components (thorough: 1..3)",
                  "Part C: every decorated catalogue function, one solver-chosen wrong dimension per guarded parameter"]
    ctx.outside = ["declared unit with zero scale factor", "guarded parameters with default values that the caller omits",
                   "complex scale factors"]
    ctx.trusted = ["z3", "sympy dimsys_SI.get_dimensional_dependencies for concrete dimensions", "vlib.lift stubs (listed)"]
    part_a(ctx)
    part_b(ctx)
    try:
        from checks import c04_catalogue
    except ImportError:
        c04_catalogue = None
    if c04_catalogue is not None:
        c04_catalogue.part_c(ctx)
