"""C20 - physical constants: dimensions, reference values, mutual identities.

The table is finite; the solver contributes exact rational arithmetic on the
stored scale factors (binary floats taken exactly) and one genuinely
quantified variable: pi in a rational interval of width 1e-14.
"""
from __future__ import annotations

import json
import os
from fractions import Fraction

import sympy as sp
import z3

from vlib.report import ROOT
from vlib.s2smt import Enc, Query, qv, Unencodable

LEVEL = "other"
BASE = ["mass", "length", "time", "current", "temperature", "amount_of_substance", "luminous_intensity"]


def dim_vector(dimension):
    from sympy.physics.units.systems.si import dimsys_SI
    deps = dimsys_SI.get_dimensional_dependencies(dimension)
    out = {b: sp.S.Zero for b in BASE}
    for k, v in deps.items():
        nm = str(k.name)
        if nm == "angle":
            continue
        if nm not in out:
            raise Unencodable(f"base dimension {nm}")
        out[nm] = sp.nsimplify(v)
    return [out[b] for b in BASE]


REPLAY = r'''
import sys, json
import sympy as sp
from symplyphysics import quantities as Q
from symplyphysics.core.convert import convert_to_si
from sympy.physics.units.systems.si import dimsys_SI
kind = {kind!r}; name = {name!r}; spec = {spec!r}
BASE = {base!r}
def si(n):
    return sp.N(convert_to_si(getattr(Q, n)), 40)
def dimv(q):
    deps = dimsys_SI.get_dimensional_dependencies(q.dimension)
    return [sp.nsimplify(deps.get(b, 0)) if False else sp.nsimplify(next((v for k, v in deps.items() if str(k.name) == b), 0)) for b in BASE]
if kind == "missing":
    if not hasattr(Q, name) or name not in Q.__all__:
        print("REPRODUCED: constant", name, "is no longer exported"); sys.exit(1)
    sys.exit(0)
if kind == "dim":
    got = dimv(getattr(Q, name)); want = [sp.Rational(x) for x in spec["dim"]]
    print(name, "dimension exponents", got, "reference", want)
    if got != want: print("REPRODUCED"); sys.exit(1)
    sys.exit(0)
if kind == "registry":
    from sympy.physics.units.systems.si import SI
    q = getattr(Q, name)
    try:
        deps = dimsys_SI.get_dimensional_dependencies(SI.get_quantity_dimension(q))
        got = [sp.nsimplify(next((v for k, v in deps.items() if str(k.name) == b), 0)) for b in BASE]
        ok = got == dimv(q) and SI.get_quantity_scale_factor(q) == q.scale_factor
        print(name, "registry dimension exponents", got, "own", dimv(q), "registry scale", SI.get_quantity_scale_factor(q), "own", q.scale_factor)
    except Exception as e:
        ok = False; print(name, "registry lookup raised", type(e).__name__, e)
    if not ok: print("REPRODUCED"); sys.exit(1)
    sys.exit(0)
if kind == "value":
    v = si(name); tol = sp.Float(spec["rel_tol"], 40)
    ok = any(abs(v - sp.Float(r, 40)) <= tol * abs(sp.Float(r, 40)) for r in spec["refs"])
    print(name, "SI value", v, "refs", spec["refs"], "rel_tol", spec["rel_tol"])
    if not ok: print("REPRODUCED"); sys.exit(1)
    sys.exit(0)
if kind == "identity":
    env = {{n: si(n) for n in Q.__all__}}; env["pi"] = sp.pi
    l = sp.N(sp.sympify(spec["lhs"], locals=env), 40); r = sp.N(sp.sympify(spec["rhs"], locals=env), 40)
    print(spec["name"], "lhs", l, "rhs", r)
    if abs(l - r) > sp.Float(spec["rel_tol"], 40) * abs(r): print("REPRODUCED"); sys.exit(1)
    sys.exit(0)
'''


def run(ctx):
    from symplyphysics import quantities as Q
    from symplyphysics.core.symbols.quantities import Quantity
    table = json.load(open(os.path.join(ROOT, "refs", "constants.json")))
    ref = table["constants"]
    q = Query(ctx, timeout_ms=20000)
    ctx.explanation = (
        "Finite table, checked exhaustively: for every name in quantities.__all__ (a) the dimension-exponent vector read from the "
        "real Quantity equals the reference vector (z3, linear equalities), (b) z3 decides over exact rationals, for every pi in "
        "(3.14159265358979, 3.14159265358980), that the SI value scale_factor/1000^mass_exponent lies within the stated relative "
        "tolerance of a reference value, (c) the seven identities of the statement hold within the tolerance of refs/constants.json (1e-10; 1e-9 for Z0) for every pi in that interval. "
        "The only quantified variable is pi; floats are taken as their exact binary rationals.")
    ctx.functions_encoded = ["symplyphysics.quantities (module-level table)", "Quantity.__init__ (executed at import)"]
    ctx.bounds = ["all exported constants; pi in a rational interval of width 1e-14"]
    ctx.trusted = ["refs/constants.json (CODATA 2018/2022, IAU 2015)", "sympy dimsys_SI.get_dimensional_dependencies", "z3 QF_NRA"]
    ctx.outside = ["constants added to the catalogue without an entry in refs/constants.json are reported inconclusive (no reference)"]
    # "exported" = every public module-level Quantity (two constants are defined but absent from __all__)
    exported = sorted(set(Q.__all__) | {n for n, o in vars(Q).items() if isinstance(o, Quantity) and not n.startswith("_")})
    values = {}
    encs = {}

    def rep(kind, name, spec):
        return REPLAY.format(kind=kind, name=name, spec=spec, base=BASE)

    for name in sorted(set(exported) | set(ref)):
        if name not in exported or not hasattr(Q, name):
            ctx.ob(f"value:{name}", "inconclusive", "reference constant no longer present in the catalogue")
            continue
        obj = getattr(Q, name)
        if name not in ref:
            # a constant the reference table was not written for: a well-known physical constant is still recognised by its name
            wk = table.get("well_known", {})
            hit = next((k for k, v in wk.items() if name == k or name in v.get("aliases", [])), None)
            if hit is None:
                ctx.ob(f"value:{name}", "inconclusive", "no reference entry for this exported constant")
                continue
            spec = wk[hit]
        else:
            spec = ref[name]
        if not isinstance(obj, Quantity):
            ctx.violation(f"C20:dim:{name}", f"{name} is not a Quantity", rep("dim", name, spec))
            continue
        # (a) dimension
        try:
            dv = dim_vector(obj.dimension)
        except Unencodable as e:
            ctx.ob(f"dim:{name}", "unencoded", str(e))
            continue
        xs = [z3.Real(f"d_{b}") for b in BASE]
        cons = [x == qv(Fraction(int(v.p), int(v.q))) for x, v in zip(xs, dv)]
        r, _ = q.check(cons + [z3.Or([x != qv(Fraction(w)) for x, w in zip(xs, spec["dim"])])])
        if r == "unsat":
            ctx.ob(f"dim:{name}", "discharged", nontrivial=False)
        elif r == "sat":
            ctx.violation(f"C20:dim:{name}", f"dimension exponents {dv} != reference {spec['dim']}", rep("dim", name, spec))
        else:
            ctx.ob(f"dim:{name}", "inconclusive", "unknown")
        # (a') the same dimension and scale through the unit system's registry (what SymPy's own convert_to and get_quantity_dimension read)
        try:
            from sympy.physics.units.systems.si import SI
            rd = dim_vector(SI.get_quantity_dimension(obj))
            rs = SI.get_quantity_scale_factor(obj)
            if [str(x) for x in rd] == [str(x) for x in dv] and rs == obj.scale_factor:
                ctx.ob(f"registry:{name}", "discharged", nontrivial=False)
            else:
                ctx.violation(f"C20:registry:{name}", f"SI registry gives dimension exponents {rd} / scale {rs} for {name}; the constant itself has {dv} / {obj.scale_factor}", rep("registry", name, spec))
        except Exception as e:
            ctx.violation(f"C20:registry:{name}", f"SI registry cannot give the dimension of {name}: {type(e).__name__}: {str(e)[:100]}", rep("registry", name, spec))
        # (b) value
        enc = Enc()
        try:
            sf = sp.sympify(obj.scale_factor)
            v = enc.tr(sf) / qv(Fraction(1000) ** Fraction(int(dv[0].p), int(dv[0].q))) if dv[0].q == 1 else None
            if v is None:
                raise Unencodable("fractional mass exponent")
        except Unencodable as e:
            ctx.ob(f"value:{name}", "unencoded", str(e))
            continue
        values[name] = (enc, v)
        tol = qv(Fraction(spec["rel_tol"]))
        far = []
        for rv in spec["refs"]:
            rr = qv(Fraction(rv))
            d = v - rr
            far.append(z3.Or(d > tol * rr, -d > tol * rr))
        r, m = q.check(enc.side + enc.domain + far)
        if r == "unsat":
            ctx.ob(f"value:{name}", "discharged", nontrivial=bool(sf.has(sp.pi)),
                   sample={"constant": name, "scale_factor": str(sf), "refs": spec["refs"], "rel_tol": spec["rel_tol"], "verdict": "unsat"})
        elif r == "sat":
            ctx.violation(f"C20:value:{name}", f"SI value of {name} (scale {sf}) outside {spec['rel_tol']} of {spec['refs']}", rep("value", name, spec))
        else:
            ctx.ob(f"value:{name}", "inconclusive", "unknown")

    # (c) identities: one shared encoding so that pi is the same variable everywhere
    for ident in table["identities"]:
        enc = Enc()
        loc = {}
        ok = True
        dims = {}
        for name in exported:
            obj = getattr(Q, name, None)
            if not isinstance(obj, Quantity):
                continue
            try:
                dv = dim_vector(obj.dimension)
                loc[name] = sp.sympify(obj.scale_factor) / sp.Integer(1000)**dv[0]
                dims[name] = dv
            except Unencodable:
                pass
        try:
            lhs = sp.sympify(ident["lhs"], locals=loc)
            rhs = sp.sympify(ident["rhs"], locals=loc)
            lt, rt = enc.tr(lhs), enc.tr(rhs)
        except (Unencodable, Exception) as e:  # a name of the identity is gone
            ctx.ob("identity:" + ident["name"], "unencoded", f"{type(e).__name__}: {e}")
            continue
        tol = qv(Fraction(ident["rel_tol"]))
        d = lt - rt
        ar = z3.If(rt >= 0, rt, -rt)
        r, m = q.check(enc.side + enc.domain + [z3.Or(d > tol * ar, -d > tol * ar)])
        if r == "unsat":
            ctx.ob("identity:" + ident["name"], "discharged",
                   sample={"identity": ident["name"], "rel_tol": ident["rel_tol"], "verdict": "unsat for all pi in the interval"})
        elif r == "sat":
            ctx.violation("C20:identity:" + ident["name"], f"identity {ident['name']} fails beyond {ident['rel_tol']}", rep("identity", ident["name"], ident))
        else:
            ctx.ob("identity:" + ident["name"], "inconclusive", "unknown")
        # dimensional consistency of the identity (exponent vectors are linear in the factors)
        dsym = {n: sp.Symbol("D_" + n, positive=True) for n in dims}
        try:
            ld = sp.sympify(ident["lhs"], locals=dsym)
            rd = sp.sympify(ident["rhs"], locals=dsym)

            def expo(e):
                tot = [sp.S.Zero] * len(BASE)
                for b, p in e.as_powers_dict().items():
                    if b in dsym.values():
                        nm = str(b)[2:]
                        tot = [t + p * c for t, c in zip(tot, dims[nm])]
                return tot
            if expo(ld) == expo(rd):
                ctx.ob("identity-dim:" + ident["name"], "discharged", nontrivial=False)
            else:
                ctx.violation("C20:identity-dim:" + ident["name"], f"sides have different dimensions {expo(ld)} vs {expo(rd)}",
                              rep("identity", ident["name"], ident))
        except Exception as e:
            ctx.ob("identity-dim:" + ident["name"], "unencoded", str(e))
    ctx.extra["exhaustive"] = True
    ctx.extra["constants_exported"] = len(exported)
