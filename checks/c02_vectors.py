"""C02, clause "where a vector law is offered solved for different unknowns, the forms are mutual inverses" (engine S).

For every catalogue module exposing two or more public `<x>_law(...)` functions: `g = <y>_law(..., x_, ...)` and
`f = <x>_law(..., y_, ...)` are paired when each takes the other's result (parameter name = function stem + '_') and the
remaining parameters coincide.  With symbolic 3-vectors / scalars, z3 decides  g(x_ = f(y_ = y, rest), rest) == y
component-wise for all values.
"""
from __future__ import annotations

import inspect
import itertools

import sympy as sp
import z3

from vlib import catalogue
from vlib.par import pmap, with_timeout, ItemTimeout
from vlib.s2smt import Enc, Query, Unencodable, model_value


def law_modules():
    out = []
    for m in catalogue.module_names():
        try:
            mod = catalogue.load(m)
        except Exception:
            continue
        laws = [f for f, fn in catalogue.public_functions(mod) if f.endswith("_law")]
        if len(laws) >= 2:
            out.append(m)
    return out


def _mods(_):
    return law_modules()


def make_arg(pname, param, tag):
    from symplyphysics.core.vectors.vectors import Vector
    ann = str(param.annotation)
    if "Vector" in ann:
        comps = [sp.Symbol(f"{tag}{pname}{i}", real=True) for i in range(3)]
        return Vector(comps), comps
    s = sp.Symbol(f"{tag}{pname}", positive=True)
    return s, [s]


def check_module(item):
    modname, timeout = item
    from symplyphysics.core.vectors.vectors import Vector
    out = []
    mod = catalogue.load(modname)
    fns = {f: fn for f, fn in catalogue.public_functions(mod) if f.endswith("_law")}
    sigs = {f: inspect.signature(fn) for f, fn in fns.items()}
    q = Query(None, timeout_ms=timeout)
    short = modname.replace("symplyphysics.", "")
    for f, g in itertools.permutations(fns, 2):
        fs, gs = f[:-4], g[:-4]
        pf, pg = list(sigs[f].parameters), list(sigs[g].parameters)
        if gs + "_" not in pf or fs + "_" not in pg:
            continue
        if sorted(p for p in pf if p != gs + "_") != sorted(p for p in pg if p != fs + "_"):
            continue
        name = f"inverse:{short}:{g}({f}(y)) == y"
        try:
            args = {}
            for pn in pf:
                args[pn] = make_arg(pn, sigs[f].parameters[pn], "")
            y_obj, y_comps = args[gs + "_"]
            x_val = with_timeout(lambda: fns[f](**{pn: a[0] for pn, a in args.items()}), 60)
            gargs = {pn: (x_val if pn == fs + "_" else args[pn][0]) for pn in pg}
            back = with_timeout(lambda: fns[g](**gargs), 60)
        except ItemTimeout:
            out.append({"name": name, "verdict": "inconclusive", "why": "SymPy did not finish in 60 s"})
            continue
        except Exception as e:
            out.append({"name": name, "verdict": "unencoded", "why": f"symbolic call raises {type(e).__name__}: {str(e)[:80]}"})
            continue
        got = list(back.components) if isinstance(back, Vector) else [back]
        want = list(y_obj.components) if isinstance(y_obj, Vector) else [y_obj]
        got = got + [sp.S.Zero] * (len(want) - len(got))
        enc = Enc()
        from vlib import qspec
        enc.extra_handlers.append(qspec.quantity_handler)      # physical constants (speed of light) by their scale factor
        try:
            diffs = [enc.tr(sp.sympify(a)) != enc.tr(sp.sympify(b)) for a, b in zip(got, want)]
        except Unencodable as e:
            out.append({"name": name, "verdict": "unencoded", "why": str(e)})
            continue
        r, m = q.check(enc.assume + enc.side + enc.domain + [z3.Or(diffs)])
        rec = {"name": name, "mod": modname, "f": f, "g": g, "verdict": {"unsat": "discharged", "sat": "candidate"}.get(r, "inconclusive"), "why": r}
        if r == "unsat":
            rec["sample"] = {"pair": name, "composed": [str(x)[:80] for x in got]}
        out.append(rec)
    if not out:
        out.append({"name": f"inverse:{short}", "verdict": "unencoded", "why": "no pair of forms that take each other's result with the same remaining parameters"})
    return out


REPLAY = r'''
import sys, inspect
import sympy as sp
from vlib import catalogue
from symplyphysics.core.vectors.vectors import Vector
modname, f, g = {mod!r}, {f!r}, {g!r}
mod = catalogue.load(modname)
F, G = getattr(mod, f), getattr(mod, g)
sf, sg = inspect.signature(F), inspect.signature(G)
vals = [sp.Rational(3, 2), sp.Rational(-7, 5), sp.Rational(5, 11), sp.Rational(9, 4), sp.Rational(2, 7), sp.Rational(13, 6), sp.Rational(1, 3), sp.Rational(8, 5), sp.Rational(4, 9)]
it = iter(vals * 4)
args = {{}}
for pn, p in sf.parameters.items():
    args[pn] = Vector([next(it), next(it), next(it)]) if "Vector" in str(p.annotation) else abs(next(it))
y = args[g[:-4] + "_"]
x = F(**args)
back = G(**{{pn: (x if pn == f[:-4] + "_" else args[pn]) for pn in sg.parameters}})
# module-level scalars (mass, speed of light ...) that stay symbolic: give them generic positive values
def num(e):
    e = sp.sympify(e)
    e = e.subs({{q: q.scale_factor for q in e.atoms(sp.physics.units.Quantity)}})
    return sp.N(e.subs({{s: sp.Rational(17, 10) for s in e.free_symbols}}), 25)
got = [num(c) for c in (back.components if isinstance(back, Vector) else [back])]
want = [num(c) for c in (y.components if isinstance(y, Vector) else [y])]
print(g, "(", f, "(y)) =", got, " y =", want)
if any(abs(a - b) > 1e-12 * (1 + abs(b)) for a, b in zip(got + [0] * (len(want) - len(got)), want)):
    print("REPRODUCED"); sys.exit(1)
'''


def run(ctx, timeout):
    mods = pmap(_mods, [0], procs=1)[0]
    res = pmap(check_module, [(m, timeout) for m in mods], chunk=1, hard_s=240 if timeout <= 10000 else None)
    for rl in res:
        if isinstance(rl, dict):
            ctx.harness_errors.append(rl.get("error", "")[-300:])
            continue
        for r in rl:
            ctx.add_solver(1, 0.0)
            if r["verdict"] == "discharged":
                ctx.ob(r["name"], "discharged", sample=r.get("sample") if len(ctx.samples) < 14 else None)
            elif r["verdict"] in ("unencoded", "inconclusive"):
                ctx.ob(r["name"], r["verdict"], r["why"])
            else:
                ctx.violation("C02:" + r["name"], f"{r['name']}: the two solved forms are not mutual inverses", REPLAY.format(mod=r["mod"], f=r["f"], g=r["g"]))
    ctx.extra["vector_law_modules"] = len(mods)
