"""C13 - circulation and flux integrals satisfy Stokes', Green's and Gauss' theorems (engine S).

The real integral helpers (which call SymPy's integrate/simplify as part of the
code under test) run on GENERIC polynomial fields: one symbolic coefficient per
monomial.  The two sides of each theorem are polynomial expressions in the
coefficients, the region sizes and pi; z3 (pi a free Real: pi is transcendental,
so a rational-coefficient polynomial identity holds at pi iff it holds
identically) decides equality for all coefficient values.
"""
from __future__ import annotations

import itertools

import sympy as sp
import z3

from checks.c12 import base_scalar_handler
from vlib.par import pmap, with_timeout, ItemTimeout
from vlib.s2smt import Enc, Query, Unencodable
from sympy.vector.scalar import BaseScalar

LEVEL = "other"


def generic_field(cs, deg, ncomp, planar=False, prefix="p"):
    x, y, z = cs.coord_system.base_scalars()
    vs = (x, y) if planar else (x, y, z)
    comps, coeffs = [], []
    for c in range(ncomp):
        e = sp.S.Zero
        for powers in itertools.product(range(deg + 1), repeat=len(vs)):
            if sum(powers) > deg:
                continue
            a = sp.Symbol(f"{prefix}{c}_" + "".join(map(str, powers)), real=True)
            coeffs.append(a)
            e += a * sp.Mul(*[v**p for v, p in zip(vs, powers)])
        comps.append(e)
    return comps, coeffs


def curlz_free_field(cs, deg):
    """generic field whose curl has NO z component identically but is not zero: F = (P(z) + d(phi)/dx, d(phi)/dy, Q(x, y)), generic coefficients"""
    x, y, z = cs.coord_system.base_scalars()
    P = sum(sp.Symbol(f"P{i}", real=True) * z**i for i in range(1, deg + 1))
    phi = sum(sp.Symbol(f"f{i}{j}", real=True) * x**i * y**j for i in range(deg + 2) for j in range(deg + 2) if 1 <= i + j <= deg + 1)
    Q = sum(sp.Symbol(f"Q{i}{j}", real=True) * x**i * y**j for i in range(deg + 1) for j in range(deg + 1) if 1 <= i + j <= deg)
    return [P + sp.diff(phi, x), sp.diff(phi, y), Q]


def regions(t, u, v):
    R, a, b = sp.symbols("R a b", positive=True)
    return {
        "circle": dict(curve=[R * sp.cos(t), R * sp.sin(t)], climits=(t, 0, 2 * sp.pi), surface=[u * sp.cos(v), u * sp.sin(v)], s1=(u, 0, R), s2=(v, 0, 2 * sp.pi), sizes=[R]),
        "ellipse": dict(curve=[a * sp.cos(t), b * sp.sin(t)], climits=(t, 0, 2 * sp.pi), surface=[a * u * sp.cos(v), b * u * sp.sin(v)], s1=(u, 0, 1), s2=(v, 0, 2 * sp.pi), sizes=[a, b]),
        # the disc as a Cartesian region: inner limits depend on the outer parameter
        "disc_xy": dict(curve=[R * sp.cos(t), R * sp.sin(t)], climits=(t, 0, 2 * sp.pi), surface=[u, v], s1=(u, -sp.sqrt(R**2 - v**2), sp.sqrt(R**2 - v**2)), s2=(v, -R, R), sizes=[R]),
        # same regions with the two surface parameters listed in the opposite (left-handed) order: Green's theorem does not depend on it
        "circle_swapped": dict(curve=[R * sp.cos(t), R * sp.sin(t)], climits=(t, 0, 2 * sp.pi), surface=[u * sp.cos(v), u * sp.sin(v)], s1=(v, 0, 2 * sp.pi), s2=(u, 0, R), sizes=[R]),
        "rectangle_swapped": dict(segments=[([t, 0], (t, 0, a)), ([a, t], (t, 0, b)), ([a - t, b], (t, 0, a)), ([0, b - t], (t, 0, b))],
                                  surface=[u, v], s1=(v, 0, b), s2=(u, 0, a), sizes=[a, b]),
        # a rectangle in the tilted plane z = x (Stokes only): the x and y components of the curl matter here, not only the z component
        "tilted_rectangle": dict(segments=[([t, 0, t], (t, 0, a)), ([a, t, a], (t, 0, b)), ([a - t, b, a - t], (t, 0, a)), ([0, b - t, 0], (t, 0, b))],
                                 surface=[u, v, u], s1=(u, 0, a), s2=(v, 0, b), sizes=[a, b]),
        "rectangle": dict(segments=[([t, 0], (t, 0, a)), ([a, t], (t, 0, b)), ([a - t, b], (t, 0, a)), ([0, b - t], (t, 0, b))],
                          surface=[u, v], s1=(u, 0, a), s2=(v, 0, b), sizes=[a, b]),
        # a circle lifted to the plane z = h and a tilted one (Stokes with fields that have FEWER components than the curve has coordinates)
        "circle_lifted": dict(curve=[R * sp.cos(t), R * sp.sin(t), sp.Symbol("h", positive=True)], climits=(t, 0, 2 * sp.pi),
                              surface=[u * sp.cos(v), u * sp.sin(v), sp.Symbol("h", positive=True)], s1=(u, 0, R), s2=(v, 0, 2 * sp.pi), sizes=[R]),
    }


LAWMODS = {"circulation_is_integral_along_curve": ("circulation_law", "circulation_along_curve", 1),
           "flux_is_integral_across_curve": ("flux_law", "flux_across_curve", 1),
           "circulation_is_integral_of_curl_over_surface": ("circulation_law", "circulation_along_surface_boundary", 2),
           "flux_is_integral_across_surface": ("flux_law", "flux_across_surface", 2)}
LAWMOD_LIMITS = ("symbolic", "0..2pi", "2pi..0", "-2pi..0", "0..-pi", "-pi..pi")


def lawmod_sides(modname, variant, deg, C, lohi, comps):
    """(value through the law module's function, value of the analysis routine it documents) on one curve / surface and one choice of
    parameter limits -- symbolic ones and ones that start or end at 0, run backwards or are negative"""
    import importlib
    from symplyphysics.core.fields.vector_field import VectorField
    from symplyphysics.core.vectors.vectors import Vector
    from symplyphysics.core.fields import analysis as AN
    mod = importlib.import_module("symplyphysics.laws.fields." + modname)
    lawname, anname, npar = LAWMODS[modname]
    field = VectorField.from_vector(Vector(comps, C))
    lo, hi = {"symbolic": lohi, "0..2pi": (0, 2 * sp.pi), "2pi..0": (2 * sp.pi, 0), "-2pi..0": (-2 * sp.pi, 0), "0..-pi": (0, -sp.pi), "-pi..pi": (-sp.pi, sp.pi)}[variant]
    R = sp.Symbol("R", positive=True)
    if npar == 1:
        par = mod.parameter
        traj = [R * sp.cos(par), R * sp.sin(par)] + ([0] if "circulation" in modname else [])
        comps_ = comps if "circulation" in modname else comps[:2]
        field = VectorField.from_vector(Vector(comps_, C))
        return getattr(mod, lawname)(field, traj, lo, hi), getattr(AN, anname)(field, traj, (par, lo, hi))
    p1, p2 = mod.parameter1, mod.parameter2
    a = sp.Symbol("a", positive=True)
    surf = [p1, p2, p1 + 2 * p2]
    return (getattr(mod, lawname)(field, surf, (lo, hi), (0, a)) + getattr(mod, lawname)(field, surf, (-a, 0), (lo, hi)),
            getattr(AN, anname)(field, surf, (p1, lo, hi), (p2, 0, a)) + getattr(AN, anname)(field, surf, (p1, -a, 0), (p2, lo, hi)))


def free_of_coordinates(e, cs, params):
    e = sp.sympify(e)
    bad = [s for s in e.atoms(BaseScalar)] + [p for p in params if e.has(p)]
    return bad


def compare(enc, q, lhs, rhs):
    import time as _t
    t0 = _t.time()
    l, r = enc.tr(sp.expand(lhs)), enc.tr(sp.expand(rhs))
    res, m = q.check(enc.assume + enc.side + enc.domain + [l != r])
    return res, _t.time() - t0


def work(item):
    from symplyphysics.core.coordinate_systems.coordinate_systems import CoordinateSystem
    from symplyphysics.core.fields.vector_field import VectorField
    from symplyphysics.core.vectors.vectors import Vector
    from symplyphysics.core.fields import analysis as AN
    theorem, region, deg, variant, timeout = item
    name = f"{theorem}:{region}:deg{deg}:{variant}"
    out = {"name": name, "item": list(item[:4]), "queries": 0, "solver_s": 0.0}
    C = CoordinateSystem(CoordinateSystem.System.CARTESIAN)
    t, u, v, k = sp.Symbol("t", real=True), sp.Symbol("u", real=True), sp.Symbol("v", real=True), sp.Symbol("k", positive=True)
    q = Query(None, timeout_ms=timeout)
    enc = Enc(pi_free=True)
    enc.extra_handlers.append(base_scalar_handler)
    try:
        def body():
            if theorem in ("stokes", "green"):
                reg = regions(t, u, v)[region]
                planar = theorem == "green"
                # variant "theoremz": a two-component field that also depends on z (evaluated in the plane z = 0 by both routines)
                comps, coeffs = generic_field(C, deg, 2 if planar else 3, planar=planar and variant != "theoremz")
                if variant == "curlzfree":
                    comps = curlz_free_field(C, deg)
                if variant == "twocomp":      # two components that depend on x, y AND z; the missing third component is zero
                    comps, coeffs = generic_field(C, deg, 2, planar=False)
                field = VectorField.from_vector(Vector(comps, C))
                f_curve = AN.circulation_along_curve if theorem == "stokes" else AN.flux_across_curve
                f_surf = AN.circulation_along_surface_boundary if theorem == "stokes" else AN.flux_across_surface_boundary

                def curve_value(scale=None, reverse=False):
                    segs = reg["segments"] if "segments" in reg else [(reg["curve"], reg["climits"])]
                    tot = sp.S.Zero
                    for traj, (p, lo, hi) in segs:
                        if scale is not None:       # reparametrisation t -> k t, limits scaled accordingly
                            traj = [sp.sympify(c).subs(p, scale * p) for c in traj]
                            lo, hi = lo / scale, hi / scale
                        if reverse:                 # opposite orientation: t -> (lo + hi) - t
                            traj = [sp.sympify(c).subs(p, lo + hi - p) for c in traj]
                        tot += f_curve(field, traj, (p, lo, hi))
                    return tot
                if variant in ("theorem", "theoremz", "curlzfree", "twocomp"):
                    lhs = curve_value()
                    rhs = f_surf(field, reg["surface"], reg["s1"], reg["s2"])
                    return lhs, rhs, [t, u, v]
                if variant == "speed":
                    return curve_value(), curve_value(scale=k), [t, u, v]
                if variant == "reverse":
                    return curve_value(), -curve_value(reverse=True), [t, u, v]
                if variant == "speed_sq":
                    # non-uniform reparametrisation with a NEGATIVE parameter: t = s**2, s running from 0 down to -sqrt(hi)
                    # (same points, same orientation; the parametrisation speed 2 s is negative all along)
                    tot = sp.S.Zero
                    for traj, (p, lo, hi) in reg["segments"]:
                        tot += f_curve(field, [sp.sympify(c).subs(p, p**2) for c in traj], (p, 0, -sp.sqrt(hi)))
                    return curve_value(), tot, [t, u, v]
            if theorem == "lawmod":
                lhs_, rhs_ = lawmod_sides(region, variant, deg, C, sp.symbols("lo hi", real=True), generic_field(C, deg, 3)[0])
                return lhs_, rhs_, [t, u, v]
            if theorem == "gauss":
                a, b, c = sp.symbols("a b c", positive=True)
                comps, coeffs = generic_field(C, deg, 3)
                field = VectorField.from_vector(Vector(comps, C))
                vol = AN.flux_across_volume_boundary(field, (0, a), (0, b), (0, c))
                # six faces, parametrised so that the surface normal d/dp1 x d/dp2 points outward
                faces = [([a, u, v], (u, 0, b), (v, 0, c)), ([0, v, u], (v, 0, c), (u, 0, b)) if False else ([0, u, v], (v, 0, c), (u, 0, b)),
                         ([u, b, v], (v, 0, c), (u, 0, a)), ([u, 0, v], (u, 0, a), (v, 0, c)),
                         ([u, v, c], (u, 0, a), (v, 0, b)), ([u, v, 0], (v, 0, b), (u, 0, a))]
                tot = sp.S.Zero
                for surf, l1, l2 in faces:
                    tot += AN.flux_across_surface(field, surf, l1, l2)
                return tot, vol, [u, v]
            if theorem == "gauss_curv":
                # divergence theorem in the library's curvilinear systems, against the textbook flux of a radial (+ axial) field
                R, h = sp.symbols("R h", positive=True)
                kind = "SPHERICAL" if region == "ball" else "CYLINDRICAL"
                # not the first system of its kind in this process: an earlier one has already been through the same routine
                # (whatever the library remembers from it must not leak into this one)
                S_first = CoordinateSystem(getattr(CoordinateSystem.System, kind))
                f1, _, _ = S_first.coord_system.base_scalars()
                AN.flux_across_volume_boundary(VectorField.from_vector(Vector([f1, 0, 0], S_first)), (0, 1), (0, 2 * sp.pi), (0, sp.pi if kind == "SPHERICAL" else 1))
                S_ = CoordinateSystem(getattr(CoordinateSystem.System, kind))
                q1, q2, q3 = S_.coord_system.base_scalars()
                pc = [sp.Symbol(f"p{i}", real=True) for i in range(deg + 1)]
                qc = [sp.Symbol(f"q{i}", real=True) for i in range(deg + 1)]
                prad = lambda r_: sum(c_ * r_**i for i, c_ in enumerate(pc))
                qax = lambda z_: sum(c_ * z_**i for i, c_ in enumerate(qc))
                if kind == "SPHERICAL":          # (r, azimuth, polar): F = p(r) e_r through the sphere r = R
                    field = VectorField.from_vector(Vector([prad(q1), 0, 0], S_))
                    vol = AN.flux_across_volume_boundary(field, (0, R), (0, 2 * sp.pi), (0, sp.pi))
                    return 4 * sp.pi * R**2 * prad(R), vol, [u, v]
                field = VectorField.from_vector(Vector([prad(q1), 0, qax(q3)], S_))       # F = p(r) e_r + q(z) e_z through the can r <= R, 0 <= z <= h
                vol = AN.flux_across_volume_boundary(field, (0, R), (0, 2 * sp.pi), (0, h))
                return 2 * sp.pi * R * h * prad(R) + sp.pi * R**2 * (qax(h) - qax(0)), vol, [u, v]
            raise ValueError(item)
        lhs, rhs, params = with_timeout(body, 600)
    except ItemTimeout:
        out.update(verdict="inconclusive", why="SymPy integration did not finish in 600 s")
        return out
    except Exception as e:
        out.update(verdict="candidate", why=f"raised {type(e).__name__}: {str(e)[:150]}")
        return out
    out["lhs"] = str(lhs)[:200]
    out["rhs"] = str(rhs)[:200]
    badl, badr = free_of_coordinates(lhs, C, params), free_of_coordinates(rhs, C, params)
    if badl or badr:
        out.update(verdict="candidate", why=f"result is not a number: it still contains {sorted(set(map(str, badl + badr)))}")
        return out
    if sp.sympify(lhs).has(sp.Integral) or sp.sympify(rhs).has(sp.Integral):
        out.update(verdict="unencoded", why="SymPy left an unevaluated integral")
        return out
    try:
        res, dt = compare(enc, q, lhs, rhs)
    except Unencodable as e:
        out.update(verdict="unencoded", why=str(e))
        return out
    out["queries"], out["solver_s"] = 1, dt
    out["verdict"] = {"unsat": "discharged", "sat": "candidate"}.get(res, "inconclusive")
    out["why"] = "the two sides differ for some coefficient values" if res == "sat" else res
    return out


REPLAY = r'''
import sys, random, itertools
import sympy as sp
from checks import c13
from symplyphysics.core.coordinate_systems.coordinate_systems import CoordinateSystem
from symplyphysics.core.fields.vector_field import VectorField
from symplyphysics.core.vectors.vectors import Vector
from symplyphysics.core.fields import analysis as AN
from sympy.vector.scalar import BaseScalar
theorem, region, deg, variant = {item!r}
C = CoordinateSystem(CoordinateSystem.System.CARTESIAN)
t, u, v = sp.symbols("t u v", real=True)
random.seed(11)
sizes = {{sp.Symbol("R", positive=True): 2, sp.Symbol("a", positive=True): 3, sp.Symbol("b", positive=True): sp.Rational(3, 2), sp.Symbol("c", positive=True): 2, sp.Symbol("h", positive=True): sp.Rational(5, 2)}}
planar = theorem == "green"
comps, coeffs = c13.generic_field(C, deg, 2 if planar else 3, planar=planar and variant != "theoremz")
if variant == "curlzfree":
    comps = c13.curlz_free_field(C, deg); coeffs = sorted({{s for c in comps for s in sp.sympify(c).free_symbols if not isinstance(s, BaseScalar)}}, key=str)
if variant == "twocomp":
    comps, coeffs = c13.generic_field(C, deg, 2, planar=False)
vals = {{a: random.randint(-4, 4) or 1 for a in coeffs}}
comps = [sp.sympify(c).subs(vals) for c in comps]
field = VectorField.from_vector(Vector(comps, C))
def num(e):
    e = sp.sympify(e).subs(sizes)
    if e.atoms(BaseScalar) or e.free_symbols: raise ValueError("result is not a number: %s" % e)
    return sp.N(e, 25)
bad = False
try:
    if theorem in ("stokes", "green"):
        reg = c13.regions(t, u, v)[region]
        fc = AN.circulation_along_curve if theorem == "stokes" else AN.flux_across_curve
        fs = AN.circulation_along_surface_boundary if theorem == "stokes" else AN.flux_across_surface_boundary
        segs = reg["segments"] if "segments" in reg else [(reg["curve"], reg["climits"])]
        def curve(scale=None, reverse=False):
            tot = 0
            for traj, (p, lo, hi) in segs:
                traj = [sp.sympify(c).subs(sizes) for c in traj]; lo, hi = sp.sympify(lo).subs(sizes), sp.sympify(hi).subs(sizes)
                if scale is not None: traj = [c.subs(p, scale * p) for c in traj]; lo, hi = lo / scale, hi / scale
                if reverse: traj = [c.subs(p, lo + hi - p) for c in traj]
                tot += fc(field, traj, (p, lo, hi))
            return num(tot)
        if variant in ("theorem", "theoremz", "curlzfree", "twocomp"):
            s1 = tuple(sp.sympify(x).subs(sizes) for x in reg["s1"]); s2 = tuple(sp.sympify(x).subs(sizes) for x in reg["s2"])
            l = curve(); r = num(fs(field, [sp.sympify(c).subs(sizes) for c in reg["surface"]], s1, s2))
        elif variant == "speed": l = curve(); r = curve(scale=sp.Rational(5, 2))
        elif variant == "speed_sq":
            l = curve(); tot = 0
            for traj, (p, lo, hi) in segs:
                hi = sp.sympify(hi).subs(sizes)
                tot += fc(field, [sp.sympify(c).subs(sizes).subs(p, p**2) for c in traj], (p, 0, -sp.sqrt(hi)))
            r = num(tot)
        else: l = curve(); r = -curve(reverse=True)
    elif theorem == "lawmod":
        l_, r_ = c13.lawmod_sides(region, variant, deg, C, (sp.Rational(-3, 2), sp.Rational(5, 4)), comps)
        l, r = num(l_), num(r_)
    elif theorem == "gauss_curv":
        kind = "SPHERICAL" if region == "ball" else "CYLINDRICAL"
        S_first = CoordinateSystem(getattr(CoordinateSystem.System, kind)); f1 = S_first.coord_system.base_scalars()[0]
        AN.flux_across_volume_boundary(VectorField.from_vector(Vector([f1, 0, 0], S_first)), (0, 1), (0, 2 * sp.pi), (0, sp.pi if kind == "SPHERICAL" else 1))
        S_ = CoordinateSystem(getattr(CoordinateSystem.System, kind)); q1, q2, q3 = S_.coord_system.base_scalars()
        R, h = 2, sp.Rational(3, 2)
        pc = [random.randint(-4, 4) for _ in range(deg + 1)]; qc = [random.randint(-4, 4) for _ in range(deg + 1)]
        prad = lambda r_: sum(c_ * r_**i for i, c_ in enumerate(pc)); qax = lambda z_: sum(c_ * z_**i for i, c_ in enumerate(qc))
        if kind == "SPHERICAL":
            r = num(AN.flux_across_volume_boundary(VectorField.from_vector(Vector([prad(q1), 0, 0], S_)), (0, R), (0, 2 * sp.pi), (0, sp.pi)))
            l = num(4 * sp.pi * R**2 * prad(R))
        else:
            r = num(AN.flux_across_volume_boundary(VectorField.from_vector(Vector([prad(q1), 0, qax(q3)], S_)), (0, R), (0, 2 * sp.pi), (0, h)))
            l = num(2 * sp.pi * R * h * prad(R) + sp.pi * R**2 * (qax(h) - qax(0)))
        comps = (pc, qc)
    else:
        a, b, c = 3, sp.Rational(3, 2), 2
        r = num(AN.flux_across_volume_boundary(field, (0, a), (0, b), (0, c)))
        faces = [([a, u, v], (u, 0, b), (v, 0, c)), ([0, u, v], (v, 0, c), (u, 0, b)), ([u, b, v], (v, 0, c), (u, 0, a)), ([u, 0, v], (u, 0, a), (v, 0, c)),
                 ([u, v, c], (u, 0, a), (v, 0, b)), ([u, v, 0], (v, 0, b), (u, 0, a))]
        l = num(sum(AN.flux_across_surface(field, s, l1, l2) for s, l1, l2 in faces))
    print(theorem, region, variant, "lhs", l, "rhs", r, "field", comps)
    bad = abs(l - r) > 1e-12 * (1 + abs(l) + abs(r))
except Exception as e:
    print("raised", type(e).__name__, e); bad = True
if bad:
    print("REPRODUCED"); sys.exit(1)
'''


def run(ctx):
    thorough = ctx.tier == "thorough"
    timeout = 120000 if thorough else 30000
    degs = (1, 2, 3) if thorough else (1, 2)
    items = []
    for deg in degs:
        for region in ("circle", "ellipse", "rectangle"):
            for theorem in ("stokes", "green"):
                items.append((theorem, region, deg, "theorem", timeout))
        items.append(("gauss", "box", deg, "theorem", timeout))
        items.append(("gauss_curv", "ball", deg, "theorem", timeout))
        items.append(("gauss_curv", "cylinder", deg, "theorem", timeout))
        items.append(("stokes", "disc_xy", deg, "theorem", timeout))
        items.append(("stokes", "tilted_rectangle", deg, "theorem", timeout))
        items.append(("stokes", "tilted_rectangle", deg, "curlzfree", timeout))
        items.append(("stokes", "circle_lifted", deg, "twocomp", timeout))
        items.append(("stokes", "circle_lifted", deg, "theorem", timeout))
        items.append(("stokes", "tilted_rectangle", deg, "twocomp", timeout))
        items.append(("green", "disc_xy", deg, "theorem", timeout))
        items.append(("green", "circle_swapped", deg, "theorem", timeout))
        items.append(("green", "circle", deg, "theoremz", timeout))
        items.append(("green", "rectangle", deg, "theoremz", timeout))
        items.append(("green", "rectangle_swapped", deg, "theorem", timeout))
    items.append(("green", "rectangle", 2, "speed_sq", timeout))
    items.append(("stokes", "rectangle", 2, "speed_sq", timeout))
    for modname in LAWMODS:
        for lim in LAWMOD_LIMITS:
            items.append(("lawmod", modname, 1, lim, timeout))
    for theorem in ("stokes", "green"):
        for region in (("circle", "ellipse", "rectangle") if thorough else ("circle", "rectangle")):
            items.append((theorem, region, 2, "speed", timeout))
            items.append((theorem, region, 2, "reverse", timeout))
    ctx.explanation = (
        "Engine S over generic coefficients. Fields are polynomials of total degree <= d with one symbolic coefficient per monomial "
        "(3 components in x,y,z for Stokes/Gauss, 2 components in x,y for Green). The real circulation_along_curve / "
        "circulation_along_surface_boundary / flux_across_curve / flux_across_surface_boundary / flux_across_surface / "
        "flux_across_volume_boundary (SymPy integrate + simplify run as part of the real code) are evaluated for circle, ellipse, rectangle "
        "(four segments) and box with symbolic sizes. Each result must be free of coordinate variables and parameters; the two sides of "
        "each theorem, a reparametrised curve (t -> k t, k > 0 symbolic) and the reversed curve are compared by z3 as polynomial identities "
        "in the coefficients, sizes and pi (free variable).")
    ctx.functions_encoded = ["laws.fields.*.circulation_law / flux_law (against the analysis routine each documents, limits symbolic / starting or ending at 0 / reversed)", "analysis.circulation_along_curve", "analysis.circulation_along_surface_boundary", "analysis.flux_across_curve", "analysis.flux_across_surface",
                             "analysis.flux_across_surface_boundary", "analysis.flux_across_volume_boundary", "geometry.elements.*", "geometry.normals.*", "operators.curl_operator/divergence_operator"]
    ctx.bounds = [f"polynomial fields of total degree <= {max(degs)} (all coefficients symbolic)", "regions: circle R, ellipse a,b, rectangle a x b, box a x b x c (symbolic sizes > 0)",
                  "reparametrisation speed k > 0 symbolic", f"z3 timeout {timeout} ms; SymPy integration limit 600 s"]
    ctx.outside = ["non-polynomial fields (the trigonometric family of the design is not closed-form integrable by SymPy on circles; not attempted)", "curvilinear coordinate systems except the divergence theorem for radial (+ axial) polynomial fields on a ball / cylinder",
                   "regions other than the four listed"]
    ctx.trusted = ["z3 nlsat", "SymPy integrate/simplify are part of the code under test, their output is judged, not trusted"]
    res = pmap(work, items, chunk=1)
    for r in res:
        if "error" in r:
            ctx.harness_errors.append(r["error"][-300:])
            continue
        ctx.add_solver(r["queries"], r["solver_s"])
        if r["verdict"] == "discharged":
            ctx.ob(r["name"], "discharged", sample={"obligation": r["name"], "lhs": r.get("lhs"), "rhs": r.get("rhs")})
        elif r["verdict"] in ("unencoded", "inconclusive"):
            ctx.ob(r["name"], r["verdict"], r["why"])
        else:
            th, reg, deg, var = r["item"]
            ctx.violation(f"C13:{th}:{reg}:{var}" + (":deg1" if deg == 1 else ""), f"{r['name']}: {r['why']}; lhs={r.get('lhs')} rhs={r.get('rhs')}", REPLAY.format(item=tuple(r["item"])))
