"""C03 - laws load and mean the same for every import order and creation history (partial: solver-complete class cover + replay).

What a history can change inside the repository's own state is the value of the per-prefix name counters at the moment a
module (with the dependencies it pulls in) is imported, hence the generated names SYM<n>/FUN<n>/QTY<n>, hence SymPy's
canonical (string) ordering of them.  For a module M the symbolic variable is the counter offset o at import time.  z3
(LIA encoding of lexicographic order of decimal numerals) enumerates ALL order types of the module's own id block
against each other and against the shared-pool ids it uses, for 243 <= o < 10^7, with blocking clauses until unsat: the
final unsat is the proof that the enumerated representatives cover every history in the bound.  Each representative is
then replayed concretely in a fresh process (import success incl. derivation asserts, canonical meaning of every public
equation, values of calculate_* at fixed arguments) and compared with the default history.
"""
from __future__ import annotations

import json
import os
import random
import subprocess
import sys
import time

import z3

from vlib import catalogue
from vlib.report import ROOT
from vlib.par import pmap

LEVEL = "other"
PY = os.path.join(ROOT, ".venv", "bin", "python")
MAXID = 10**7
TOUCHED = set()
PREFIXES = ("SYM", "FUN", "QTY", "VEC", "SYS", "")

PROBE = r'''
import sys, json, re, inspect
sys.path.insert(0, {root!r})
import sympy as sp
import symplyphysics
from symplyphysics.core.symbols import id_generator as G
shift = {shift}
c0 = dict(G._ids)
for k in list(G._ids):
    G._ids[k] += shift
for k in {prefixes!r}:
    G._ids.setdefault(k, shift)
before = set(sys.modules)
out = {{"c0": c0, "shift": shift}}
try:
    import importlib
    M = importlib.import_module({mod!r})
except BaseException as e:
    out["import_error"] = f"{{type(e).__name__}}: {{str(e)[:300]}}"
    print("@@" + json.dumps(out)); sys.exit(0)
c1 = dict(G._ids)
out["blocks"] = {{k: c1.get(k, 0) - (c0.get(k, 0) + shift) for k in c1}}
new_mods = [m for m in sys.modules if m not in before and m.startswith("symplyphysics.")]
base = {{k: c0.get(k, 0) + shift for k in c1}}

def token(name):
    m = re.match(r"([A-Z]*)(\d+)$", name)
    if not m: return name
    pre, n = m.group(1), int(m.group(2))
    if pre in c0 and n <= c0[pre]: return f"{{pre}}p{{n}}"          # shared pool: absolute id
    return f"{{pre}}b{{n - base.get(pre, 0)}}"                      # own block: id relative to the block start

def canon(e):
    e = sp.sympify(e)
    keep = ("positive", "real", "integer", "nonnegative", "negative")
    sreps = {{}}
    for s in e.atoms(sp.Symbol):
        sreps[s] = sp.Symbol(token(s.name) + ":" + str(getattr(s, "display_name", "")), **{{k: v for k, v in s.assumptions0.items() if k in keep}})
    for q in e.atoms(sp.physics.units.Quantity):
        dn = str(getattr(q, "display_name", ""))
        sreps[q] = sp.Symbol("Q:" + (token(str(q.name)) if "QTY" in dn else dn) + ":" + str(q.scale_factor))
    try:
        e1 = e.xreplace(sreps) if sreps else e        # symbols first (also inside function arguments) ...
        changed = True
        guard = 0
        while changed and guard < 6:                  # ... then undefined functions, innermost applications first
            changed = False
            guard += 1
            for f in sorted(e1.atoms(sp.core.function.AppliedUndef), key=lambda a: len(str(a))):
                nm = str(getattr(f.func, "name", f.func))
                if nm.startswith("T:"):
                    continue
                g = sp.Function("T:" + token(nm) + ":" + str(getattr(f.func, "display_name", "")))(*f.args)
                e1 = e1.xreplace({{f: g}})
                changed = True
                break
        return sp.srepr(e1)
    except Exception as ex:
        return "uncanonical:" + type(ex).__name__

from vlib import catalogue
eqs = {{}}
for n, e in catalogue.public_equations(M):
    eqs[n] = canon(e)
out["equations"] = eqs
# pool ids touched by the freshly imported modules (any sympy expression reachable from their namespaces)
pool = set()
for mn in new_mods + [{mod!r}]:
    mm = sys.modules.get(mn)
    for v in list(vars(mm).values()) if mm else []:
        try:
            if isinstance(v, sp.Basic):
                for s in v.atoms(sp.Symbol):
                    m = re.match(r"SYM(\d+)$", s.name)
                    if m and int(m.group(1)) <= c0.get("SYM", 0): pool.add(int(m.group(1)))
        except Exception:
            pass
out["pool"] = sorted(pool)
# calculate_* at fixed arguments
from symplyphysics import Quantity
from symplyphysics.core.symbols.symbols import DimensionSymbol
vals = {{}}
for fname, fn in catalogue.public_functions(M):
    if not fname.startswith("calculate_"): continue
    info = catalogue.decorator_info(fn)
    sig = inspect.signature(info["inner"])
    args = []
    ok = True
    for i, (pn, p) in enumerate(sig.parameters.items()):
        spec = info["inputs"].get(pn)
        if spec is None:
            args.append(1.5 + 0.25 * i); continue
        if isinstance(spec, (list, tuple)) or "Sequence" in str(p.annotation) or "Vector" in str(p.annotation): ok = False; break
        d = spec.dimension if isinstance(spec, DimensionSymbol) else spec
        try: args.append(Quantity(1.5 + 0.25 * i, dimension=d.subs("angle", 1)))
        except Exception: ok = False; break
    if not ok: continue
    try:
        r = fn(*args)
        if isinstance(r, (tuple, list)): vals[fname] = [str(sp.N(getattr(x, "scale_factor", x), 12)) for x in r]
        else: vals[fname] = str(sp.N(getattr(r, "scale_factor", r), 12))
    except BaseException as e:
        vals[fname] = "raises:" + type(e).__name__
out["values"] = vals
print("@@" + json.dumps(out))
'''


def probe(mod, shift, timeout=240):
    env = dict(os.environ)
    env["PYTHONHASHSEED"] = "0"
    env["PYTHONPATH"] = ROOT + os.pathsep + env.get("PYTHONPATH", "")
    try:
        p = subprocess.run([PY, "-c", PROBE.format(root=ROOT, mod=mod, shift=shift, prefixes=PREFIXES)], capture_output=True, text=True, timeout=timeout, env=env, cwd="/tmp")
    except subprocess.TimeoutExpired:
        return {"harness": "timeout"}
    for line in p.stdout.splitlines():
        if line.startswith("@@"):
            return json.loads(line[2:])
    return {"harness": (p.stdout + p.stderr)[-600:]}


# ---- decimal-string order in LIA ---------------------------------------------
def digits(n):
    """digit count of a z3 Int n in [1, 10^8)"""
    return z3.If(n < 10, 1, z3.If(n < 100, 2, z3.If(n < 1000, 3, z3.If(n < 10**4, 4, z3.If(n < 10**5, 5, z3.If(n < 10**6, 6, z3.If(n < 10**7, 7, 8)))))))


def norm(n):
    """numeral left-aligned to 8 digits"""
    return z3.If(n < 10, n * 10**7, z3.If(n < 100, n * 10**6, z3.If(n < 1000, n * 10**5, z3.If(n < 10**4, n * 10**4, z3.If(n < 10**5, n * 1000,
                 z3.If(n < 10**6, n * 100, z3.If(n < 10**7, n * 10, n)))))))


def strlt(a, b):
    """str(a) < str(b) for positive ints (Python string order of decimal numerals)"""
    a = a if z3.is_expr(a) else z3.IntVal(a)
    b = b if z3.is_expr(b) else z3.IntVal(b)
    return z3.Or(norm(a) < norm(b), z3.And(norm(a) == norm(b), digits(a) < digits(b)))


def order_types(c0, k, pool, cap):
    """representative offsets o (= value of the SYM counter just before the module's block) for every order type.
    The ids of the block are consecutive, so their mutual string order is determined by where a power of ten falls inside the
    block: feature `bpos` = number of block ids that have as many digits as the first one (k = no boundary inside).  The order
    against the pool ids the module touches is a vector of Booleans.  Returns (representatives, cover complete?, #features)."""
    o = z3.Int("o")
    s = z3.Solver()
    s.set("timeout", 20000)
    s.add(o >= c0, o + k < MAXID)
    d1 = digits(o + 1)
    bpos = z3.Sum([z3.If(digits(o + i) == d1, 1, 0) for i in range(1, k + 1)])
    idx = list(range(1, k + 1)) if k <= 10 else sorted(set([1, 2, k - 1, k] + [1 + (k - 1) * j // 6 for j in range(7)]))
    feats = []
    for i in idx:
        for p in pool:
            feats.append(strlt(o + i, p))
    fv = [z3.Bool(f"f{j}") for j in range(len(feats))]
    bp = z3.Int("bpos")
    s.add(bp == bpos)
    for v, f in zip(fv, feats):
        s.add(v == f)
    reps = []
    complete = False

    def take(m):
        ov = m[o].as_long()
        vals = [z3.is_true(m.eval(v, model_completion=True)) for v in fv]
        b = m.eval(bp, model_completion=True).as_long()
        # self-validation of the LIA encoding against Python's own string comparison / digit counts
        assert b == sum(1 for i in range(1, k + 1) if len(str(ov + i)) == len(str(ov + 1))), "digit-count encoding disagrees with Python"
        j = 0
        for i in idx:
            for p in pool:
                assert vals[j] == (str(ov + i) < str(p)), "LIA encoding of string order disagrees with Python"
                j += 1
        reps.append(ov)
        s.add(z3.Or([bp != b] + [v != z3.BoolVal(x) for v, x in zip(fv, vals)]))
    # phase 1: one representative for every position of a digit boundary inside the block (smallest offsets first)
    for b in range(1, k):
        if len(reps) >= cap:
            break
        s.push()
        s.add(bp == b, o < 2000)
        r = str(s.check())
        m = s.model() if r == "sat" else None
        s.pop()
        if m is not None:
            take(m)
    # phase 2: all remaining order types
    while len(reps) < cap:
        r = str(s.check())
        if r == "unsat":
            complete = True
            break
        if r != "sat":
            break
        take(s.model())
    return reps, complete, len(feats) + 1


def check_module(item):
    mod, cap = item
    t0 = time.time()
    out = {"mod": mod, "obl": [], "queries": 0}
    base = probe(mod, 0)
    if "harness" in base:
        out["obl"].append((f"{mod}:default", "inconclusive", "probe failed: " + base["harness"][-100:], None))
        return out
    if "import_error" in base:
        out["obl"].append((f"{mod}:import", "candidate", f"import fails in the default history: {base['import_error']}", 0))
        return out
    c0 = base["c0"].get("SYM", 0)
    k = max(base["blocks"].get("SYM", 0), 1)
    pool = base["pool"][:24]
    try:
        reps, complete, nfeat = order_types(c0, k, pool, cap)
    except AssertionError as e:
        out["obl"].append((f"{mod}:encoding", "inconclusive", str(e), None))
        return out
    out["queries"] = len(reps) + 1
    out["classes"] = len(reps)
    out["complete"] = complete
    out["k"] = k
    out["pool"] = len(pool)
    out["obl"].append((f"{mod}:cover", "discharged" if complete else "inconclusive",
                       f"{len(reps)} order types of a block of {k} ids against {len(pool)} pool ids ({nfeat} order features); cover proof {'unsat' if complete else 'not finished (cap)'}", None))
    # the other name counters (FUN, QTY, SYS, VEC ...) are shifted by the same amount; their blocks are short, so instead of a cover
    # proof every shift that puts a power of ten (10, 100, 1000) inside such a block is simply added
    shifts = [(ov - c0, f"offset{ov}") for ov in reps]
    for pref, kp in sorted(base["blocks"].items()):
        if pref == "SYM" or kp < 2:
            continue
        c0p = base["c0"].get(pref, 0)
        for d in (1, 2, 3):
            for j in range(1, min(kp, 6)):
                sh = 10**d - 1 - j - c0p          # ids c0p+sh+1 .. c0p+sh+kp: the j-th one is 10^d - 1, the next 10^d
                if sh > 0 and sh not in [x for x, _ in shifts]:
                    shifts.append((sh, f"{pref}-boundary:10^{d}-{j}"))
    out["other_prefix_shifts"] = len(shifts) - len(reps)
    for shift, label in shifts:
        if shift == 0:
            continue
        r = probe(mod, shift)
        ov = c0 + shift
        name = f"{mod}:{label}"
        if "harness" in r:
            out["obl"].append((name, "inconclusive", "probe failed", None))
            continue
        if "import_error" in r:
            out["obl"].append((name, "candidate", f"import fails when the name counters start at {ov}: {r['import_error']}", shift))
            continue
        diffs = []
        for en, sig in base["equations"].items():
            if r["equations"].get(en) != sig:
                diffs.append(f"equation {en} differs")
        for fn, v in base["values"].items():
            v2 = r["values"].get(fn)
            if v2 != v and not same_values(v, v2):
                diffs.append(f"{fn} returns {v2} instead of {v}")
        if diffs:
            out["obl"].append((name, "candidate", "; ".join(diffs)[:300], shift))
        else:
            out["obl"].append((name, "discharged", None, None))
    out["secs"] = time.time() - t0
    return out


def same_values(a, b):
    try:
        if isinstance(a, list) and isinstance(b, list):
            return len(a) == len(b) and all(same_values(x, y) for x, y in zip(a, b))
        fa, fb = complex(a.replace("*I", "j").replace(" ", "")), complex(b.replace("*I", "j").replace(" ", ""))
        return abs(fa - fb) <= 1e-9 * (abs(fa) + abs(fb) + 1e-300)
    except Exception:
        return False


REPLAY = r'''
import sys, json
sys.path.insert(0, {root!r})
from checks import c03
mod, shift = {mod!r}, {shift!r}
base = c03.probe(mod, 0)
r = c03.probe(mod, shift)
bad = False
if "import_error" in r and "import_error" not in base:
    print("import fails with the counters shifted by", shift, ":", r["import_error"]); bad = True
elif "import_error" in base:
    print("import fails in the default history:", base["import_error"]); bad = True
else:
    for en, sig in base.get("equations", {{}}).items():
        if r["equations"].get(en) != sig: print("equation", en, "means something else:\n ", sig[:300], "\n ", str(r["equations"].get(en))[:300]); bad = True
    for fn, v in base.get("values", {{}}).items():
        v2 = r["values"].get(fn)
        if v2 != v and not c03.same_values(v, v2): print(fn, "returns", v2, "instead of", v); bad = True
if bad:
    print("REPRODUCED"); sys.exit(1)
'''


def run(ctx):
    thorough = ctx.tier == "thorough"
    rng = random.Random(ctx.seed)
    mods = catalogue.module_names()
    if thorough:
        chosen = mods
        cap = 40
    else:
        # quick = "the check you would run on every change": the modules touched in /repo's working tree or by its last commit,
        # plus a seed-chosen sample of the rest
        touched = []
        try:
            out = subprocess.run("git -C {0} diff --name-only HEAD; git -C {0} diff --name-only HEAD~1 HEAD 2>/dev/null".format(os.environ.get("VERIF_REPO", "/repo")), shell=True, capture_output=True, text=True, timeout=30).stdout
            for ln in out.splitlines():
                if ln.endswith(".py") and ln.startswith("symplyphysics/"):
                    m = ln[:-3].replace("/", ".")
                    if m in mods and m not in touched:
                        touched.append(m)
        except Exception:
            pass
        rest = [m for m in mods if m not in touched]
        chosen = sorted(touched[:20] + rng.sample(rest, 28 - min(len(touched), 20) if len(touched) < 20 else 8))
        cap = 10
        TOUCHED.update(touched[:20])
    ctx.explanation = (
        "Partial. Per module M the symbolic variable is the offset o of the name counters when M (with the dependencies it pulls in) is imported, "
        "243 <= o < 10^7. The lexicographic order of decimal numerals is encoded in LIA (digit-count case split, left-aligned comparison; validated "
        "against Python's str.__lt__ on every model) and z3 enumerates, with blocking clauses until UNSAT, every order type of M's own id block "
        "against itself and against the shared-pool ids M touches: the final unsat proves that the enumerated representatives cover every history "
        "in the bound. Each representative is replayed in a fresh process (counters preset, M imported with its in-module derivation asserts, every "
        "public equation canonicalised by (pool id | block-relative id, display name) tokens, calculate_* evaluated at fixed arguments) and compared "
        "with the default history. The per-history verdict is by concrete replay; the solver contributes completeness of the set of replays.")
    ctx.functions_encoded = ["id_generator.next_id (state preset)", "every chosen module's import-time code (executed)", "decimal-string order (LIA model, self-validated)"]
    ctx.bounds = ["ids < 10^7", f"{'all' if thorough else str(len(chosen)) + ' seed-chosen'} of {len(mods)} modules; at most {cap} order types replayed per module (more -> cover reported inconclusive)",
                  "one joint offset for all prefixes; dependencies imported fresh in the same block; blocks > 14 ids are represented by 14 evenly chosen members; <= 24 pool ids per module"]
    ctx.outside = ["behaviour is assumed to depend on the history only through SymPy's ordering of generated names (string hash order, PYTHONHASHSEED, is outside)",
                   "dependencies imported earlier at unrelated offsets (only the 'fresh block' variant is explored)", "SymPy's cache state"]
    ctx.trusted = ["z3 LIA", "the canonicalisation of equations in checks/c03.py"]
    items = [(m, 60 if m in TOUCHED else cap) for m in chosen]
    res = pmap(check_module, items, chunk=1)
    nclasses = 0
    for r in res:
        if "error" in r:
            ctx.harness_errors.append(r["error"][-300:])
            continue
        ctx.add_solver(r.get("queries", 0), 0.0)
        nclasses += r.get("classes", 0)
        for name, verdict, why, shift in r["obl"]:
            if verdict == "discharged":
                ctx.ob(name, "discharged", sample={"module": r["mod"], "cover": why} if why and len(ctx.samples) < 8 else None)
            elif verdict == "inconclusive":
                ctx.ob(name, "inconclusive", why)
            else:
                key = f"C03:import:{r['mod']}" if "import fails" in why else f"C03:meaning:{r['mod']}"
                ctx.violation(key, f"{name}: {why}", REPLAY.format(root=ROOT, mod=r["mod"], shift=shift))
    ctx.extra["modules_checked"] = len(chosen)
    ctx.extra["order_types_replayed"] = nclasses
    # every module must at least import in the default history (cheap, all modules, one process)
    bad = pmap(_import_all, [0], procs=1)[0]
    for m, err in bad:
        ctx.violation(f"C03:import:{m}", f"import fails in the default history: {err}", REPLAY.format(root=ROOT, mod=m, shift=0))
    ctx.ob("default history: every catalogue module imports", "discharged" if not bad else "inconclusive", None, nontrivial=False)


def _import_all(_):
    bad = []
    for m in catalogue.module_names():
        try:
            catalogue.load(m)
        except BaseException as e:
            bad.append((m, f"{type(e).__name__}: {str(e)[:150]}"))
    return bad
