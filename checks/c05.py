"""C05 - quantity construction computes value and dimension, or refuses (engine L).

The real Quantity.__init__ -> collect_quantity_factor_and_dimension -> _collect_*
run natively on expression trees whose leaves are quantities with symbolic
scale factors (z3 Reals) and symbolic dimension vectors (8 z3 Reals each).
Every path is compared by z3 with the compositional specification of
vlib/qspec.py for ALL leaf values and dimensions.
"""
from __future__ import annotations

import itertools
import random

import sympy as sp
import z3

from vlib import lift, qspec
from vlib.lift import Session, explore, coverage_ok, make_quantity, to_vec, vec_eq, rebound, standard_bindings, LiftUnsupported
from vlib.par import pmap
from vlib.s2smt import model_value, Unencodable

LEVEL = "other"

CONSTS = {"2": sp.Integer(2), "-1": sp.Integer(-1), "1/2": sp.Rational(1, 2), "3": sp.Integer(3)}
FUNCS = {"exp": sp.exp, "sin": sp.sin, "log": sp.log, "atan2": sp.atan2, "besselj": sp.besselj}


def n_leaves(r):
    if r[0] in ("q", "n", "sym"):
        return 1
    if r[0] == "c":
        return 0
    return sum(n_leaves(x) for x in r[1:] if isinstance(x, tuple))


def depth(r):
    if r[0] in ("q", "n", "c", "sym"):
        return 0
    return 1 + max(depth(x) for x in r[1:] if isinstance(x, tuple))


def recipes(max_leaves, max_depth, rng=None, sample=None):
    q = [("q", i) for i in range(3)]
    leaves = q + [("n",)]
    lev = {0: list(leaves)}
    allr = list(leaves)
    seen = set(allr)
    for d in range(1, max_depth + 1):
        cur = []
        pool = allr
        new_ops = []
        for a in pool:
            new_ops.append(("abs", a))
            for f in ("exp", "sin"):
                new_ops.append(("fn", f, a))
            for c in ("2", "-1", "1/2"):
                new_ops.append(("pow", a, ("c", c)))
            new_ops.append(("mul", ("c", "3"), a))
        for a, b in itertools.combinations_with_replacement(pool, 2):
            for op in ("add", "mul", "min", "max"):
                new_ops.append((op, a, b))
        for a, b in itertools.product(pool, repeat=2):
            new_ops.append(("pow", a, b))
            if d == 1:
                for f in ("atan2", "besselj"):        # functions of several arguments: EVERY argument must be dimensionless
                    new_ops.append(("fn", f, a, b))
        for a, b, c in itertools.combinations_with_replacement(pool, 3):
            if n_leaves(a) + n_leaves(b) + n_leaves(c) <= max_leaves:
                for op in ("add", "mul", "min"):
                    new_ops.append((op, a, b, c))
        for r in new_ops:
            if r in seen or n_leaves(r) > max_leaves or depth(r) != d:
                continue
            seen.add(r)
            cur.append(r)
        lev[d] = cur
        allr = allr + cur
    return allr


def build(r, env, evaluate=True):
    op = r[0]
    if op == "q":
        return env["q"][r[1]]
    if op == "n":
        return env["n"]
    if op == "c":
        return CONSTS[r[1]]
    if op == "sym":
        return env["sym"]
    args = [build(x, env, evaluate) for x in r[1:] if isinstance(x, tuple)]
    kw = {} if evaluate else {"evaluate": False}
    if op == "add":
        return sp.Add(*args, **kw)
    if op == "mul":
        return sp.Mul(*args, **kw)
    if op == "pow":
        return sp.Pow(*args, **kw)
    if op == "abs":
        return sp.Abs(args[0], **kw)
    if op == "min":
        return sp.Min(*args, **kw)
    if op == "max":
        return sp.Max(*args, **kw)
    if op == "fn":
        return FUNCS[r[1]](*args, **kw)
    if op == "deriv":
        x = sp.Symbol("x")
        return sp.Derivative(sp.Function("g")(x), x) * args[0]
    raise ValueError(op)


def rstr(r):
    op = r[0]
    if op == "q":
        return f"q{r[1]}"
    if op == "n":
        return "n"
    if op == "c":
        return r[1]
    if op == "sym":
        return "x"
    if op == "fn":
        return f"{r[1]}({','.join(rstr(x) for x in r[2:])})"
    return f"{op}({','.join(rstr(x) for x in r[1:] if isinstance(x, tuple))})"


def check_recipe(item):
    r, evaluate = item
    from symplyphysics.core.symbols.quantities import Quantity
    name = ("" if evaluate else "uneval:") + rstr(r)
    out = {"name": name, "recipe": r, "evaluate": evaluate, "queries": 0, "solver_s": 0.0, "paths": 0, "subs": []}
    ses = Session(None, timeout_ms=TIMEOUT_MS)
    ses.generic_outside = True        # zero tests met while SymPy builds the tree (Abs(quantity) calls the collector) are decided at a generic point
    with ses.active(), rebound(*standard_bindings()):
        env = {"q": [make_quantity(ses.scalar(f"s{i}_"), ses.dim(f"D{i}_")) for i in range(3)], "n": ses.scalar("n"),
               "sym": sp.Symbol("x_free")}
        try:
            expr = build(r, env, evaluate)
        except (ValueError, TypeError) as e:
            out.update(verdict="unencoded", why=f"SymPy does not build this tree: {str(e)[:60]}")
            return out
        try:
            sem = qspec.spec(expr)
            paths = explore(lambda: Quantity(expr), max_paths=600)
        except (LiftUnsupported, Unencodable) as e:
            out.update(verdict="unencoded", why=f"{type(e).__name__}: {e}")
            return out
        except RecursionError:
            out.update(verdict="unencoded", why="sympy recursion")
            return out
        out["paths"] = len(paths)
        try:
            cov = coverage_ok(paths)
            val_t = ses.z(sem.val)
            anyv = sem.is_any()
            bad = None
            unknown = cov != "covered"
            for p in paths:
                if p.kind == "ret":
                    q = p.value
                    try:
                        got_v = ses.z(q.scale_factor)
                        got_d = to_vec(q.dimension)
                    except (LiftUnsupported, Unencodable) as e:
                        out.update(verdict="unencoded", why=f"result: {e}")
                        return out
                    okf = z3.And(sem.wf, got_v == val_t, z3.Or(anyv, vec_eq(got_d, sem.dim)))
                    label = "accepted"
                elif isinstance(p.value, ValueError):
                    okf = z3.Not(sem.wf)
                    label = "refused"
                else:
                    okf = z3.BoolVal(False)
                    label = f"raised {type(p.value).__name__}: {str(p.value)[:80]}"
                res, m = ses.check(p.pc + [z3.Not(okf)])
                if res == "sat":
                    bad = (p, label, m, okf)
                    break
                if res != "unsat" or p.unknown:
                    unknown = True
        except (LiftUnsupported, Unencodable) as e:
            out.update(verdict="unencoded", why=f"{type(e).__name__}: {e}")
            return out
        out["queries"] = ses.queries
        out["solver_s"] = ses.solver_s
        if bad is not None:
            p, label, m, okf = bad
            mv = lambda t: str(model_value(m, t))
            qs = []
            for qq in env["q"]:
                qs.append({"s": mv(ses.z(qq.scale_factor)), "D": [mv(x) for x in to_vec(qq.dimension)]})
            wf_m = bool(z3.is_true(m.eval(sem.wf, model_completion=True)))
            exp = {"wf": wf_m}
            if wf_m:
                try:
                    exp["val"] = mv(val_t)
                    exp["dim"] = [mv(x) for x in sem.dim]
                    exp["any"] = bool(z3.is_true(m.eval(anyv, model_completion=True)))
                except Exception:
                    exp["val"] = None
            out.update(verdict="candidate", label=label, model={"q": qs, "n": mv(ses.z(env["n"]))}, expect=exp,
                       why=f"{name}: {label} but spec says {'well-formed' if wf_m else 'ill-formed'} (expected {exp})")
        elif unknown:
            out.update(verdict="inconclusive", why="unknown/coverage")
        else:
            out.update(verdict="discharged")
    return out


TIMEOUT_MS = 10000

REPLAY = r'''
import sys
import sympy as sp
from sympy.physics import units
from symplyphysics import Quantity, dimensionless
from sympy.physics.units.definitions.dimension_definitions import angle as angle_type
from sympy.physics.units.systems.si import dimsys_SI
from checks import c05
BASE = [units.mass, units.length, units.time, units.current, units.temperature, units.amount_of_substance, units.luminous_intensity, angle_type]
def mkdim(exps):
    d = dimensionless
    for b, e in zip(BASE, exps):
        e = sp.Rational(e)
        if e != 0: d = d * b**e
    return d
recipe = {recipe!r}; evaluate = {evaluate!r}; model = {model!r}; expect = {expect!r}
env = {{"q": [Quantity(sp.Rational(q["s"]), dimension=mkdim(q["D"])) for q in model["q"]], "n": sp.Rational(model["n"]), "sym": sp.Symbol("x_free")}}
expr = c05.build(recipe, env, evaluate)
try:
    q = Quantity(expr); got = "accepted"
except ValueError as e:
    got = "refused"; msg = str(e)
except Exception as e:
    got = "raised " + type(e).__name__; msg = str(e)
print("expression:", c05.rstr(recipe), "=", expr, "->", got)
bad = False
if expect["wf"]:
    if got != "accepted": bad = True; print("well-formed by the statement but", got)
    elif expect.get("val") is not None:
        v = sp.nsimplify(q.scale_factor) if q.scale_factor.is_number else q.scale_factor
        ev = sp.Rational(expect["val"]) if "/" in expect["val"] or expect["val"].lstrip("-").isdigit() else sp.Float(expect["val"])
        if abs(sp.N(q.scale_factor - ev)) > 1e-9 * (1 + abs(sp.N(ev))): bad = True; print("scale factor", q.scale_factor, "expected", ev)
        if not expect["any"]:
            deps = dimsys_SI.get_dimensional_dependencies(q.dimension)
            gd = [sp.nsimplify(next((v for k, v in deps.items() if str(k.name) == str(b.name)), 0)) for b in BASE]
            if gd != [sp.Rational(x) for x in expect["dim"]]: bad = True; print("dimension", gd, "expected", expect["dim"])
else:
    if got == "accepted": bad = True; print("ill-formed by the statement (inequivalent sum/min/max terms, dimensional exponent/argument or free symbol) but accepted as", q.scale_factor, q.dimension)
if bad:
    print("REPRODUCED"); sys.exit(1)
'''


def run(ctx):
    global TIMEOUT_MS
    thorough = ctx.tier == "thorough"
    TIMEOUT_MS = 30000 if thorough else 10000
    rng = random.Random(ctx.seed)
    if thorough:
        # depth <= 2 with <= 3 leaves exhaustively; 4-leaf and depth-3 trees seed-sampled (enumerating them does not fit in memory)
        rs = recipes(3, 2)
        d1 = [r for r in rs if depth(r) == 1]
        d2 = [r for r in rs if depth(r) == 2]
        pool = [r for r in rs if depth(r) <= 1]
        extra = set()
        tries = 0
        while len(extra) < 12000 and tries < 400000:
            tries += 1
            k = rng.random()
            if k < 0.45:      # depth 2, up to 4 leaves
                a, b = rng.choice(d1), rng.choice(pool)
                r = (rng.choice(["add", "mul", "min", "max", "pow"]), a, b)
                if rng.random() < 0.3:
                    r = (rng.choice(["add", "mul", "min"]), a, b, rng.choice([x for x in pool if depth(x) == 0]))
            elif k < 0.9:     # depth 3
                a, b = rng.choice(d2), rng.choice(pool)
                r = rng.choice([(rng.choice(["add", "mul", "min", "max", "pow"]), a, b), ("abs", a), ("fn", "sin", a), ("pow", a, ("c", rng.choice(["2", "-1", "1/2"]))), ("pow", b, a)])
            else:
                r = (rng.choice(["add", "mul"]), rng.choice(d2), rng.choice(d2))
            if n_leaves(r) <= 4 and r not in extra:
                extra.add(r)
        rs = rs + sorted(extra, key=str)
    else:
        rs = recipes(3, 2)
        if len(rs) > 900:
            base = [r for r in rs if depth(r) <= 1]
            rest = [r for r in rs if depth(r) > 1]
            rng.shuffle(rest)
            rs = base + rest[:900 - len(base)]
    items = [(r, True) for r in rs]
    # unevaluated source forms (repeated / cancelling terms survive) and refusal leaves
    q0, q1, q2, n = ("q", 0), ("q", 1), ("q", 2), ("n",)
    unev = [("add", q0, q0), ("add", q0, ("mul", ("c", "-1"), q0), q1), ("add", q0, q1, ("mul", ("c", "-1"), q0)), ("mul", q0, ("pow", q0, ("c", "-1"))),
            ("add", ("mul", ("c", "3"), q0), q1), ("min", q0, q0, q1), ("pow", ("add", q0, q1), ("add", n, ("mul", ("c", "-1"), n))),
            ("mul", ("add", q0, q1), ("fn", "sin", q2)), ("add", ("abs", q0), q1, q2), ("max", ("add", q0, q1), q2), ("pow", q0, ("add", q1, ("mul", ("c", "-1"), q1)))]
    items += [(r, False) for r in unev]
    refuse = [("add", q0, ("sym",)), ("mul", q0, ("sym",)), ("fn", "sin", ("sym",)), ("mul", q0, ("fn", "sin", ("sym",))), ("deriv", q0), ("add", q1, ("deriv", q0)),
              ("pow", ("sym",), ("c", "2")), ("pow", q0, ("sym",)), ("abs", ("sym",)), ("min", q0, ("sym",))]
    items += [(r, True) for r in refuse]
    ctx.explanation = (
        "Engine L. Each expression tree (recipe) is built with SymPy from quantity leaves whose scale factor is a z3 Real and whose "
        "dimension is 8 z3 Reals, a symbolic dimensionless number n, and numeric constants; the REAL Quantity(...) constructor runs "
        "natively, forking at is_any_dimension / dimsys_SI predicates; all paths explored. For every path z3 decides "
        "pc AND NOT spec(outcome) where spec = vlib/qspec.py (value, dimensional product, well-formedness written from the statement): "
        "accepted => well-formed, scale == value, (value == 0 or dimension == product); ValueError => ill-formed; plus the path-cover check.")
    ctx.functions_encoded = ["Quantity.__init__", "collect_quantity_factor_and_dimension", "_collect_quantity", "_collect_mul", "_collect_pow", "_collect_add",
                             "_collect_abs", "_collect_min_max", "_collect_function", "_unsupported_derivative", "_collect_default", "_elementwise_wrapper"]
    ctx.stubs = list(lift.STANDARD_STUBS)
    ctx.bounds = ["trees with <= 3 leaves and depth <= 2 over Add/Mul/Pow/Abs/Min/Max/exp/sin (2- and 3-ary sums/products/min): "
                  f"{'all; plus 12000 seed-sampled trees with <= 4 leaves and depth <= 3' if thorough else 'depth <= 1 all, depth 2 capped at 900 by seed'}",
                  "leaf scale factors: all reals; leaf dimensions: all real 8-vectors; exponents: symbolic number, quantity, or constants 2, -1, 1/2",
                  f"z3 timeout {TIMEOUT_MS} ms"]
    ctx.outside = ["infinite/NaN leaf values in the solver-decided part (symbolic reals are finite): a finite list of concrete trees with a 0 / 0.0 / oo / -oo / NaN term is executed instead and reported as trivial obligations", "complex scale factors", "values outside the definedness domain of a power (0**-1)",
                   "Prefix leaves in the solver-decided trees (a finite list of decimal and binary prefixes is executed concretely)", "deeper trees"]
    ctx.trusted = ["z3", "vlib/qspec.py (the statement's compositional semantics)", "stubs listed", "SymPy Add/Mul/Pow canonicalisation of the input tree"]
    res = pmap(check_recipe, items)
    groups = {}
    for r in res:
        if "error" in r:
            ctx.harness_errors.append(r["error"][-400:])
            continue
        ctx.add_solver(r["queries"], r["solver_s"])
        ctx.paths += r["paths"]
        v = r["verdict"]
        if v == "discharged":
            smp = {"tree": r["name"], "paths": r["paths"], "verdict": "all paths unsat, covered"} if (len(ctx.samples) < 8 and r["paths"] >= 4) else None
            ctx.ob(r["name"], "discharged", sample=smp)
        elif v in ("unencoded", "inconclusive"):
            ctx.ob(r["name"], v, r["why"])
        else:
            rec = r["recipe"]
            key = f"C05:{rec[0]}:{r['label'].split(':')[0]}:{'wf' if r['expect']['wf'] else 'illformed'}"
            groups.setdefault(key, []).append(r)
    ctx.extra["programs"] = len(items)
    for key, lst in sorted(groups.items()):
        lst.sort(key=lambda r: len(r["name"]))
        # the concrete replay may order operands differently from the symbolic run (sums/min/max are order sensitive):
        # try the smallest few trees of the class until one reproduces
        for r in lst[:4]:
            if ctx.violation(key, f"{r['why']} [model {r['model']}] ({len(lst)} trees in this class)",
                             REPLAY.format(recipe=r["recipe"], evaluate=r["evaluate"], model=r["model"], expect=r["expect"]),
                             extra={"trees": [x["name"] for x in lst[:30]]}):
                break

    concrete_specials(ctx)


SPECIAL_SRC = r'''
import sympy as sp
from sympy.physics import units
from symplyphysics import Quantity
from sympy.physics.units.systems.si import dimsys_SI
VALUES = {"0": sp.S.Zero, "0.0": 0.0, "oo": sp.oo, "-oo": -sp.oo, "nan": sp.nan}
def three_s(): return Quantity(3 * units.second)
SHAPES = {"q+3s": lambda q: q + three_s(), "3s+q": lambda q: three_s() + q, "Add(q,3s) unevaluated": lambda q: sp.Add(q, three_s(), evaluate=False),
          "Max(q,3s)": lambda q: sp.Max(q, three_s(), evaluate=False), "Min(3s,q)": lambda q: sp.Min(three_s(), q, evaluate=False),
          "q*5m+3s": lambda q: q * Quantity(5 * units.meter) + three_s(), "abs(q)+3s": lambda q: abs(q) + three_s()}
# shapes whose VALUE is pinned by the statement even for special magnitudes: (expression, expected scale factor as a function of the value)
VALUED = {"Abs(q) unevaluated": (lambda q: sp.Abs(q, evaluate=False), lambda v: sp.Abs(v)),
          "Max(Abs(q) unevaluated, 5 m)": (lambda q: sp.Max(sp.Abs(q, evaluate=False), Quantity(5 * units.meter), evaluate=False), lambda v: sp.Max(sp.Abs(v), 5)),
          "-q": (lambda q: -q, lambda v: -v), "q**2": (lambda q: q**2, lambda v: v**2)}
def valued(vname, shape):
    mk, want = VALUED[shape]
    try:
        r = Quantity(mk(Quantity(VALUES[vname] * units.meter)))
        w = want(sp.sympify(VALUES[vname]))
        same = (r.scale_factor == w) or (w is sp.nan and r.scale_factor is sp.nan) or (w.is_finite and abs(sp.N(r.scale_factor - w)) < 1e-12)
        return bool(same), f"scale {r.scale_factor} (expected {w}), dimension {r.dimension}"
    except Exception as ex:
        return False, f"raised {type(ex).__name__}: {ex}"
# concrete magnitudes: SymPy evaluates Min/Max/comparisons of NUMERIC operands eagerly (through the library's own comparison hook), which
# symbolic magnitudes never trigger.  Inequivalent dimensions must still be refused, equivalent ones accepted with the right value.
def eager(only=None):
    """[(label, text)] of the failing cases; operands are numeric, so SymPy tries to order them while Min/Max is built"""
    bad = []
    Q = Quantity
    m, sec, km = units.meter, units.second, units.kilometer
    refuse = [("Max(5 m, 3 s)", lambda: sp.Max(Q(5 * m), Q(3 * sec))), ("Min(5 m, 3 s)", lambda: sp.Min(Q(5 * m), Q(3 * sec))),
              ("Max(3 s, 5 m)", lambda: sp.Max(Q(3 * sec), Q(5 * m))), ("Max(5 m, 3 s) + 1 m", lambda: sp.Max(Q(5 * m), Q(3 * sec)) + Q(1 * m)),
              ("Max(5 m, 3 s, 7 m)", lambda: sp.Max(Q(5 * m), Q(3 * sec), Q(7 * m))),
              # operands of opposite sign: SymPy can order them from the signs alone
              ("Max(-5 m, 3 s)", lambda: sp.Max(Q(-5 * m), Q(3 * sec))), ("Min(-5 m, 3 s)", lambda: sp.Min(Q(-5 * m), Q(3 * sec))),
              ("Max(3 s, -5 m)", lambda: sp.Max(Q(3 * sec), Q(-5 * m))), ("Min(3 s, -5 m)", lambda: sp.Min(Q(3 * sec), Q(-5 * m))),
              ("Max(-5 m, 3 s, -7 m) + 1 m", lambda: sp.Max(Q(-5 * m), Q(3 * sec), Q(-7 * m)) + Q(1 * m)),
              ("Max(-5 m, Quantity(2))", lambda: sp.Max(Q(-5 * m), Q(2))), ("Min(5 m, Quantity(-2))", lambda: sp.Min(Q(5 * m), Q(-2))),
              ("Abs(Max(-5 m, 3 s))", lambda: sp.Abs(sp.Max(Q(-5 * m), Q(3 * sec)))), ("Max(-5 m, 3 s)**2", lambda: sp.Max(Q(-5 * m), Q(3 * sec))**2),
              # ... and an operand that is not a quantity object: a bare number or a unit expression
              ("Max(5 m, 3)", lambda: sp.Max(Q(5 * m), 3)), ("Max(5 m, 3*second)", lambda: sp.Max(Q(5 * m), 3 * sec)),
              ("Max(-5 m, 3)", lambda: sp.Max(Q(-5 * m), 3)), ("Min(-5 m, 3)", lambda: sp.Min(Q(-5 * m), 3)), ("Max(3, -5 m)", lambda: sp.Max(3, Q(-5 * m))),
              ("Max(-5 m, 3*second)", lambda: sp.Max(Q(-5 * m), 3 * sec)), ("Min(-5 m, 3*second)", lambda: sp.Min(Q(-5 * m), 3 * sec)),
              ("Min(5 m, -3)", lambda: sp.Min(Q(5 * m), -3)),
              # non-zero magnitudes outside the double range are not zeros
              ("Max(1e-400 m, 3 s)", lambda: sp.Max(Q(sp.Rational(1, 10**400) * m), Q(3 * sec))), ("Min(3 s, 1e-400 m)", lambda: sp.Min(Q(3 * sec), Q(sp.Rational(1, 10**400) * m))),
              ("Max(1e-330 m, 3 s) + 1 s", lambda: sp.Max(Q(sp.Float("1e-330", 30) * m), Q(3 * sec)) + Q(1 * sec)), ("Min(-1e-400 m, -3 s)", lambda: sp.Min(Q(sp.Rational(-1, 10**400) * m), Q(-3 * sec))),
              ("Max(1e400 m, 3 s)", lambda: sp.Max(Q(sp.Integer(10)**400 * m), Q(3 * sec)))]
    for label, mk in refuse:
        if only is not None and label != only:
            continue
        try:
            r = Quantity(mk())
            bad.append((label, f"{label}: accepted with scale {r.scale_factor}, dimension {r.dimension} (terms of a min/max with inequivalent dimensions must be refused)"))
        except ValueError:
            pass
        except Exception as ex:
            bad.append((label, f"{label}: raised {type(ex).__name__}: {ex}"))
    valued_ = [("Max(5 m, 2 km)", lambda: sp.Max(Q(5 * m), Q(2 * km)), 2000), ("Min(5 m, 2 km)", lambda: sp.Min(Q(5 * m), Q(2 * km)), 5),
               ("Max(0 m, 3 s)", lambda: sp.Max(Q(0 * m), Q(3 * sec)), 3), ("Max(-5 m, 2 km)", lambda: sp.Max(Q(-5 * m), Q(2 * km)), 2000),
               ("Min(-5 m, 2 km)", lambda: sp.Min(Q(-5 * m), Q(2 * km)), -5), ("Min(0 m, -3 s)", lambda: sp.Min(Q(0 * m), Q(-3 * sec)), -3),
               ("Max(-5 m, 30 cm)", lambda: sp.Max(Q(-5 * m), 30 * units.centimeter), sp.Rational(3, 10)), ("Min(-5, 3)", lambda: sp.Min(Q(-5), 3), -5),
               # a zero-valued quantity where the value depends on how its SIGN is judged (zero is neither negative nor positive)
               ("atan2(Quantity(0), Quantity(-2))", lambda: sp.atan2(Q(0), Q(-2)), sp.pi), ("atan2((5 m - 500 cm)/1 m, -2)", lambda: sp.atan2((Q(5 * m) - Q(500 * units.centimeter)) / Q(1 * m), Q(-2)), sp.pi),
               ("atan2(Quantity(0), Quantity(2))", lambda: sp.atan2(Q(0), Q(2)), 0), ("Abs(Quantity(0 m)) + 3 m", lambda: sp.Abs(Q(0 * m)) + Q(3 * m), 3),
               ("sqrt(Quantity(0)**2) + 1", lambda: sp.sqrt(Q(0)**2) + 1, 1), ("Max(Quantity(0), -1)", lambda: sp.Max(Q(0), -1), 0), ("Min(Quantity(0), 1)", lambda: sp.Min(Q(0), 1), 0),
               ("Max(1e-400 m, 2e-400 m)", lambda: sp.Max(Q(sp.Rational(1, 10**400) * m), Q(sp.Rational(2, 10**400) * m)), sp.Rational(2, 10**400))]
    for label, mk, want in valued_:
        if only is not None and label != only:
            continue
        try:
            r = Quantity(mk())
            if abs(sp.N(r.scale_factor - want, 30)) > sp.Float("1e-9") * max(1, abs(sp.N(want, 30))) if abs(sp.N(want, 30)) > sp.Float("1e-300") else sp.N(r.scale_factor - want, 30) != 0:
                bad.append((label, f"{label}: scale {r.scale_factor}, expected {want}"))
        except Exception as ex:
            bad.append((label, f"{label}: raised {type(ex).__name__}: {ex}"))
    return bad
# prefixes are leaves of the expression grammar too: number * prefix * unit, decimal and binary
def prefixed():
    from sympy.physics.units import prefixes as P
    bad = []
    for pname in ("kilo", "milli", "micro", "mega", "kibi", "mebi", "gibi"):
        pr = getattr(P, pname)
        for label, mk in (("3*prefix*m", lambda: 3 * pr * units.meter), ("m*prefix", lambda: units.meter * pr), ("q*prefix", lambda: Quantity(2 * units.meter) * pr), ("prefix**2*m", lambda: pr**2 * units.meter)):
            coef = {"3*prefix*m": 3, "m*prefix": 1, "q*prefix": 2, "prefix**2*m": 1}[label]
            power = 2 if label.startswith("prefix**2") else 1
            try:
                r = Quantity(mk())
                want = coef * sp.sympify(pr.scale_factor) ** power
                if abs(sp.N(r.scale_factor - want)) > 1e-9 * abs(sp.N(want)) or not dimsys_SI.equivalent_dims(r.dimension, units.length):
                    bad.append(f"{label} with {pname}: scale {r.scale_factor}, expected {want}")
            except Exception as ex:
                bad.append(f"{label} with {pname}: raised {type(ex).__name__}: {ex}")
    return bad
def special(vname, shape):
    """(ok, text): a term of value 0/oo/NaN metres added to / compared with 3 s must be accepted with the dimension of time"""
    try:
        r = Quantity(SHAPES[shape](Quantity(VALUES[vname] * units.meter)))
        return bool(dimsys_SI.equivalent_dims(r.dimension, units.time)), f"accepted with scale {r.scale_factor}, dimension {r.dimension}"
    except Exception as ex:
        return False, f"raised {type(ex).__name__}: {ex}"
'''

REPLAY_SPECIAL = SPECIAL_SRC + r'''
import sys
ok, text = special(@VNAME@, @SHAPE@)
print(@VNAME@, @SHAPE@, text)
if not ok:
    print("REPRODUCED"); sys.exit(1)
'''


def concrete_specials(ctx):
    """"a term whose value is zero, infinite or NaN is compatible with any dimension": finite enumeration of concrete trees (not solver-decided)"""
    ns = {}
    exec(SPECIAL_SRC, ns)
    for vname in ns["VALUES"]:
        for shape in ns["SHAPES"]:
            if vname == "nan" and shape.startswith(("Max", "Min")):
                continue          # SymPy itself refuses NaN inside Min/Max
            ok, text = ns["special"](vname, shape)
            if ok:
                ctx.ob(f"special:{vname}:{shape}", "discharged", nontrivial=False)
            else:
                ctx.violation(f"C05:special:{vname}:{shape}", f"{shape} with q = {vname} m: {text}; a zero/infinite/NaN term is compatible with any dimension (expected: time)",
                              REPLAY_SPECIAL.replace("@VNAME@", repr(vname)).replace("@SHAPE@", repr(shape)))
        for shape in ns["VALUED"]:
            if vname == "nan" and "Max" in shape:
                continue
            ok, text = ns["valued"](vname, shape)
            if ok:
                ctx.ob(f"special-value:{vname}:{shape}", "discharged", nontrivial=False)
            else:
                ctx.violation(f"C05:special-value:{vname}:{shape}", f"{shape} with q = {vname} m: {text}; the scale factor must be the value of the expression",
                              REPLAY_SPECIAL.replace("ok, text = special(@VNAME@, @SHAPE@)", "ok, text = valued(@VNAME@, @SHAPE@)").replace("@VNAME@", repr(vname)).replace("@SHAPE@", repr(shape)))
    bade = ns["eager"]()
    for label, text in bade:
        ctx.violation(f"C05:eager-min-max:{label}", text, SPECIAL_SRC + f"\nimport sys\nb = eager(only={label!r})\nprint(b)\nif b:\n    print('REPRODUCED'); sys.exit(1)\n")
    if not bade:
        ctx.ob("numeric Min/Max operands (eagerly evaluated by SymPy; same and opposite signs; quantity objects, bare numbers, unit expressions): inequivalent refused, equivalent valued", "discharged", nontrivial=False)
    badp = ns["prefixed"]()
    if badp:
        ctx.violation("C05:prefix-leaves", "; ".join(badp[:4]) + f" ({len(badp)} cases)", SPECIAL_SRC + "\nimport sys\nb = prefixed()\nprint(b)\nif b:\n    print('REPRODUCED'); sys.exit(1)\n")
    else:
        ctx.ob("prefix leaves (decimal and binary) times units and quantities", "discharged", nontrivial=False)
