"""C02 for laws that speak about FUNCTIONS (derivative / integral / two-instant laws).

The decorators say which parameters are samples of which law function (`validate_input(force_start_=force, force_end_=force,
time_start_=time_before, time_end_=time_after)`), so "substituting the arguments for the corresponding symbols" has one reading
that needs nothing from the function body:

  * two parameters declared as the same function F  ->  F is the straight line through the two samples, the sample abscissae
    being the parameters declared as the integration limits / as F's variable (two of them: both ends; one: interval [0, p]);
  * one parameter declared as F and one as its variable, both named `*_change_`  ->  F has slope change_F / change_v;
  * F applied only at two instant symbols (F(t_0), F(t_1))  ->  the samples themselves.

`instantiate` builds the published equation under that reading (`.doit()` performs the derivative/integral of the straight line)
for symbolic OR concrete argument values: the check feeds verification scalars and lets z3 decide the residual over all magnitudes,
the replay feeds the model's rationals.  Anything that does not fit the patterns raises NotApplicable (listed unencoded).
Where the instantiated equation still depends on the variable (`alpha = l'(T) / l(T)`), the statement does not say at which sample
the function evaluates it: every sample point is accepted (alternatives).
"""
from __future__ import annotations

import sympy as sp
from sympy.core.function import AppliedUndef

FIRST = ("start", "before", "initial", "first")
SECOND = ("end", "after", "final", "second")


class NotApplicable(Exception):
    pass


def tag(name):
    n = name.lower()
    a = any(t in n for t in FIRST) or n.rstrip("_").endswith("_0")
    b = any(t in n for t in SECOND) or n.rstrip("_").endswith("_1")
    return 0 if (a and not b) else 1 if (b and not a) else None


def ordered(names):
    t = [tag(n) for n in names]
    if t == [0, 1]:
        return list(names)
    if t == [1, 0]:
        return list(names)[::-1]
    raise NotApplicable(f"parameters {list(names)} do not name a first and a second sample")


def has_function_atoms(eq):
    return bool(eq.atoms(AppliedUndef)) or eq.has(sp.Derivative, sp.Integral)


def instantiate(info, params, eq, values, core, par2sym, fresh):
    """-> (alternatives [(L, R)], side conditions [expr != 0]);  values: {parameter name: SymPy expression};  core: returned value;
    fresh(name) makes a universally quantified scalar (the unknown offset of a function known only by its slope)"""
    from sympy.physics.units import Quantity as SymQuantity
    spec_of = lambda pn: info["inputs"].get(pn)

    def params_of(obj):
        out = []
        for pn in params:
            s = spec_of(pn)
            if s is obj or (isinstance(s, sp.Symbol) and isinstance(obj, sp.Symbol) and s == obj):
                out.append(pn)
        return out

    apps = sorted(eq.atoms(AppliedUndef), key=str)
    for a in apps:
        if any(not isinstance(x, sp.Symbol) for x in a.args):
            raise NotApplicable("law applies a function to a non-symbol")
    if eq.has(sp.Sum, sp.Product):
        raise NotApplicable("sum/product law")
    out = info["output"]
    out_is_func = isinstance(out, sp.core.function.UndefinedFunction)
    if out is None or not (out_is_func or isinstance(out, sp.Symbol)):
        raise NotApplicable("result symbol is not declared")
    funcs = []
    for a in apps:
        if a.func not in funcs:
            funcs.append(a.func)
    rep = {}
    nonzero = []
    eval_points = {}        # variable symbol -> candidate evaluation points
    used = set()
    for F in funcs:
        Fapps = [a for a in apps if a.func is F]
        ders = [d for d in eq.atoms(sp.Derivative) if d.expr.has(F)]
        ints = [i for i in eq.atoms(sp.Integral) if i.function.has(F)]
        if F is out:
            PFo = params_of(F)
            if ders and not ints and len(PFo) == 1 and len(funcs) == 1:
                # d F / d v = 0 (the whole law): F is constant, so the returned later value equals the given earlier one
                d0 = ders[0]
                other = eq.rhs if eq.lhs == d0 else eq.lhs if eq.rhs == d0 else None
                if len(ders) == 1 and other == 0 and len(d0.variables) == 1 and d0.expr == Fapps[0] and len(Fapps) == 1:
                    return [(sp.sympify(core), sp.sympify(values[PFo[0]]))], []
            if ders or ints:
                raise NotApplicable("result function under a derivative/integral")
            if not PFo:
                for a in Fapps:
                    rep[a] = core
                continue
            # conservation form F(t_1) = F(t_0): one sample is an argument, the other the result
            if len(PFo) == 1 and len(Fapps) == 2 and tag(PFo[0]) is not None:
                pts = sorted(Fapps, key=lambda a: tag(str(a.args[0])) if tag(str(a.args[0])) is not None else 9)
                if [tag(str(a.args[0])) for a in pts] != [0, 1]:
                    raise NotApplicable("instants of the conservation form are not named first/second")
                rep[pts[tag(PFo[0])]] = values[PFo[0]]
                rep[pts[1 - tag(PFo[0])]] = core
                used.add(PFo[0])
                continue
            raise NotApplicable("result function also sampled by parameters")
        PF = params_of(F)
        if not PF:
            raise NotApplicable(f"no parameter is declared as a sample of {F}")
        if not ders and not ints:
            # bare samples at two named instants
            if len(PF) == 2 and len(Fapps) == 2:
                pf = ordered(PF)
                pts = sorted(Fapps, key=lambda a: tag(str(a.args[0])) if tag(str(a.args[0])) is not None else 9)
                if [tag(str(a.args[0])) for a in pts] != [0, 1]:
                    raise NotApplicable("instants are not named first/second")
                rep[pts[0]], rep[pts[1]] = values[pf[0]], values[pf[1]]
                used.update(pf)
                continue
            raise NotApplicable("function used without derivative/integral and not at two named instants")
        vs = set()
        lims = None
        for d in ders:
            vs.update(d.variables)
        for i in ints:
            if len(i.limits) != 1 or len(i.limits[0]) != 3:
                raise NotApplicable("multiple / indefinite integral")
            vs.add(i.limits[0][0])
            lims = i.limits[0][1:]
        if len(vs) != 1:
            raise NotApplicable("several differentiation variables")
        v = vs.pop()
        if any(d.variables.count(v) != 1 for d in ders):
            raise NotApplicable("higher derivative: a straight line through two samples says nothing")
        idxs = {a.args.index(v) for a in Fapps if v in a.args}
        if len(idxs) != 1 or any(v not in a.args for a in Fapps):
            raise NotApplicable("function not applied at its variable")
        PV = params_of(v)
        if len(PF) == 2:
            pf = ordered(PF)
            if lims is not None and all(isinstance(x, sp.Symbol) for x in lims) and params_of(lims[0]) and params_of(lims[1]):
                pa, pb = params_of(lims[0])[0], params_of(lims[1])[0]
                va, vb = values[pa], values[pb]
                used.update([pa, pb])
            elif len([p for p in PV if tag(p) is not None]) == 2:
                tagged = ordered([p for p in PV if tag(p) is not None])
                va, vb = values[tagged[0]], values[tagged[1]]
                used.update(tagged)
                rest = [p for p in PV if tag(p) is None]
                if len(rest) == 1:
                    eval_points[v] = [values[rest[0]]]
                    used.add(rest[0])
                elif rest:
                    raise NotApplicable("several untagged values of the variable")
            elif len(PV) == 1 and lims is None:
                va, vb = sp.S.Zero, values[PV[0]]
                used.add(PV[0])
            else:
                raise NotApplicable("abscissae of the two samples are not declared")
            nonzero.append(vb - va)
            model = values[pf[0]] + (values[pf[1]] - values[pf[0]]) * (v - va) / (vb - va)
            used.update(pf)
            eval_points.setdefault(v, [va, vb])
        elif len(PF) == 1 and len(PV) == 1 and "change" in PF[0] and "change" in PV[0] and lims is None:
            if any(not any(d.has(a) for d in ders) for a in Fapps) or eq.xreplace({d: sp.Dummy() for d in ders}).has(F):
                raise NotApplicable("function known only by its slope is used bare")
            nonzero.append(values[PV[0]])
            model = fresh(f"offset_{F}") + values[PF[0]] / values[PV[0]] * v
            used.update([PF[0], PV[0]])
        else:
            raise NotApplicable("samples of the function do not fit the two-point / change patterns")
        for a in Fapps:
            rep[a] = model        # every application is at v itself (checked above)
    if isinstance(out, sp.Symbol):
        if not eq.has(out):
            raise NotApplicable("equation does not contain the result symbol")

    def build(side):
        e = side.xreplace(rep).doit()
        if e.has(sp.Derivative, sp.Integral) or e.atoms(AppliedUndef):
            raise NotApplicable("derivative/integral did not evaluate")
        return e
    L, R = build(eq.lhs), build(eq.rhs)
    sub = {}
    for pn, sym in par2sym.items():
        if pn in used and sym in eval_points:
            continue
        if isinstance(sym, sp.Symbol) and sym not in eval_points:
            sub[sym] = values[pn]
    if isinstance(out, sp.Symbol):
        sub[out] = core
    qreps = {q: q.scale_factor for q in (L - R).atoms(SymQuantity)}
    L, R = L.subs(qreps).subs(sub, simultaneous=True), R.subs(qreps).subs(sub, simultaneous=True)
    alts = [(L, R)]
    for v, pts in eval_points.items():
        if any(v in s.free_symbols for pair in alts for s in pair):
            alts = [(l.subs(v, pt), r.subs(v, pt)) for (l, r) in alts for pt in pts]
    return alts, nonzero
