"""C18 - LaTeX rendering of formulas is well-formed and meaning-preserving (engine S + independent LaTeX reader)."""
from __future__ import annotations

import random

import sympy as sp

from checks import c17
from vlib import docsrc, exprparse, latexparse
from vlib.par import pmap, with_timeout, ItemTimeout

LEVEL = "other"
TIMEOUT_MS = 10000


def render(x):
    from symplyphysics.docs.printer_latex import latex_str
    return latex_str(x)


def check_tree(item):
    r, ev = item
    name = c17.rstr(r)
    out = {"name": name, "item": item}
    try:
        expr = c17.build(r, ev)
        text = with_timeout(render, 20, expr)
    except ItemTimeout:
        out.update(verdict="candidate", why="latex_str does not terminate", text=None, vals=None)
        return out
    except (ZeroDivisionError, ValueError, TypeError) as e:
        out.update(verdict="unencoded", why=f"SymPy does not build this tree: {type(e).__name__}")
        return out
    except Exception as e:
        out.update(verdict="candidate", why=f"latex_str raised {type(e).__name__}: {e}", text=None, vals=None)
        return out
    if expr in (sp.nan, sp.zoo, sp.oo, -sp.oo):
        out.update(verdict="unencoded", why="degenerate tree")
        return out
    wf = latexparse.wellformed(text)
    if wf:
        out.update(verdict="candidate", why=f"ill-formed LaTeX: {wf}", text=text, vals=None, expr=str(expr))
        return out
    v, why, vals = c17.judge(expr, text, render, TIMEOUT_MS, parser=latexparse.parse, float_key=render)
    out.update(verdict=v, why=why, text=text, vals=vals, expr=str(expr))
    return out


def undeclared_names(value, text):
    """declared LaTeX display names (of the library's symbols and functions occurring in `value`) that are absent from the rendering;
    braces and blanks are ignored on both sides (q_1 is printed q_{1})"""
    from symplyphysics.core.symbols.symbols import DimensionSymbol
    if not isinstance(value, sp.Basic):
        return []
    norm = lambda z: z.replace(" ", "").replace("{", "").replace("}", "")
    t = norm(text)
    leaves = {a for a in value.atoms(sp.Symbol) if isinstance(a, DimensionSymbol)}
    leaves |= {a.func for a in value.atoms(sp.core.function.AppliedUndef) if isinstance(a.func, DimensionSymbol)}
    out = []
    seen = {}
    for leaf in sorted(leaves, key=str):
        dl = getattr(leaf, "display_latex", None)
        if dl and norm(dl) not in t:
            out.append(dl)
        # two different symbols of one equation under one LaTeX name: read as mathematics the rendering is another expression
        if dl and norm(dl) in seen and seen[norm(dl)] != leaf:
            out.append(f"{dl} [one name for two different symbols of this equation]")
        if dl:
            seen.setdefault(norm(dl), leaf)
    return sorted(out)


def bound_index_mismatch(value, text):
    """sums / products over an index: the index names written under \\sum / \\prod in the rendering are exactly the indices the expression sums
    over (read as mathematics, `\\sum_i I_k` is n I_k, not the sum of the I_k)"""
    import re
    if not isinstance(value, sp.Basic):
        return None
    nodes = [n for n in sp.preorder_traversal(value) if type(n).__name__ in ("IndexedSum", "IndexedProduct")]
    if not nodes:
        return None
    norm = lambda z: str(z).replace("{", "").replace("}", "").replace("\\", "").strip()
    want = sorted({norm(n.args[1]) for n in nodes})
    got = sorted({norm(m) for m in re.findall(r"\\(?:sum|prod)_\{?\s*([A-Za-z]+(?:_\{?\w+\}?)?)", text)})
    return None if want == got else f"the expression sums over {want}, the rendering writes {got} under its sum / product signs"


def check_file(relpath):
    from symplyphysics.docs.parse import LawDirectiveType
    out = []
    try:
        res = docsrc.members_of(relpath)
    except Exception as e:
        return [{"name": f"catalogue:{relpath}", "verdict": "unencoded", "why": f"documentation pipeline raised {type(e).__name__}: {str(e)[:100]}"}]
    if res is None:
        return []
    members, _ = res
    for m in members:
        if not any(d.directive_type == LawDirectiveType.LATEX for d in m.directives):
            continue
        name = f"catalogue:{relpath}:{m.name}"
        try:
            text = render(m.value)
        except Exception as e:
            out.append({"name": name, "verdict": "candidate", "why": f"latex_str raised {type(e).__name__}: {e}", "file": relpath, "member": m.name, "text": None, "vals": None})
            continue
        wf = latexparse.wellformed(text)
        if wf:
            out.append({"name": name, "verdict": "candidate", "why": f"ill-formed LaTeX: {wf}", "file": relpath, "member": m.name, "text": text, "vals": None})
            continue
        out.append({"name": name + ":wellformed", "verdict": "discharged", "trivial": True})
        missing = undeclared_names(m.value, text)
        if missing:
            out.append({"name": name, "verdict": "candidate", "why": f"declared LaTeX display names {missing} do not appear in the rendering (or name two symbols at once)", "file": relpath, "member": m.name,
                        "text": text, "vals": None})
            continue
        out.append({"name": name + ":display-names", "verdict": "discharged", "trivial": True})
        bi = bound_index_mismatch(m.value, text)
        if bi:
            out.append({"name": name, "verdict": "candidate", "why": bi, "file": relpath, "member": m.name, "text": text, "vals": None})
            continue
        if isinstance(m.value, (list, tuple)):
            out.append({"name": name, "verdict": "unencoded", "why": "list-valued member"})
            continue
        try:
            v, why, model = c17.judge(m.value, text, render, TIMEOUT_MS, parser=latexparse.parse, float_key=render)
        except Exception as e:
            v, why, model = "unencoded", f"{type(e).__name__}: {str(e)[:100]}", None
        out.append({"name": name, "verdict": v, "why": why, "file": relpath, "member": m.name, "text": text, "vals": model})
    return out


REPLAY_TREE = r'''
import sys
import sympy as sp
from checks import c17, c18
from vlib import exprparse, latexparse
item = {item!r}; vals = {vals!r}
r, ev = item
expr = c17.build(r, ev)
text = c18.render(expr)
wf = latexparse.wellformed(text)
if wf:
    print("REPRODUCED: ill-formed LaTeX", text, wf); sys.exit(1)
ab, lm = exprparse.abstract_leaves(expr, c18.render, c18.render)
try:
    parsed = latexparse.parse(text, lm)
except latexparse.Unreadable as e:
    print("REPRODUCED:", text, e); sys.exit(1)
except exprparse.ParseError as e:
    print("unreadable", e); sys.exit(0)
bad = False
pts = [{{lm[k]: sp.Rational(v) for k, v in (vals or {{}}).items() if k in lm}}, {{}}, {{}}, {{}}]
gen = [sp.Rational(7, 5), sp.Rational(5, 3), sp.Rational(11, 4), sp.Rational(2, 7), sp.Rational(13, 6)]
for i, sub in enumerate(pts):
    for j, (k, s) in enumerate(sorted(lm.items())): sub.setdefault(s, gen[(i + j) % len(gen)])
    a, b = sp.N(ab.subs(sub), 30), sp.N(sp.sympify(parsed).subs(sub), 30)
    print("expression:", expr, " rendering:", text, " value:", a, " value of the rendering read back:", b)
    if a.is_real and b.is_real and abs(a - b) > 1e-12 * (1 + abs(a)): bad = True
if bad:
    print("REPRODUCED"); sys.exit(1)
'''

REPLAY_FILE = r'''
import sys
import sympy as sp
from checks import c17, c18
from vlib import docsrc, exprparse, latexparse
relpath, member = {file!r}, {member!r}
res = [r for r in c18.check_file(relpath) if r.get("member") == member and r["verdict"] == "candidate"]
for r in res: print(r["name"], "rendering:", r.get("text"), "->", r["why"], r.get("vals"))
if not res: sys.exit(0)
if any("ill-formed" in r["why"] or "raised" in r["why"] or "adjacent numerals" in r["why"] or "display names" in r["why"] or "sum / product signs" in r["why"] for r in res):
    print("REPRODUCED"); sys.exit(1)
members, _ = docsrc.members_of(relpath)
m = [x for x in members if x.name == member][0]
e = m.value
sides = [e.lhs, e.rhs] if isinstance(e, sp.core.relational.Relational) else [e]
whole, lm = exprparse.abstract_leaves(sp.Add(*sides, evaluate=False), c18.render, c18.render)
parsed = latexparse.parse(c18.render(e), lm)
ps = [parsed[2], parsed[3]] if isinstance(parsed, tuple) else [parsed]
bad = len(ps) != len(sides)
gen = [sp.Rational(7, 5), sp.Rational(5, 3), sp.Rational(11, 4), sp.Rational(2, 7), sp.Rational(13, 6)]
vals = res[0].get("vals") or {{}}
for i in range(4):
    sub = {{lm[k]: sp.Rational(v) for k, v in vals.items() if k in lm}} if i == 0 else {{}}
    for j, (k, s) in enumerate(sorted(lm.items())): sub.setdefault(s, gen[(i + j) % len(gen)])
    for o, p in zip(sides, ps):
        ab, lm2 = exprparse.abstract_leaves(o, c18.render, c18.render)
        ab = ab.xreplace({{v: lm[k] for k, v in lm2.items()}})
        x, y = sp.N(ab.subs(sub), 30), sp.N(sp.sympify(p).subs(sub), 30)
        print("value", x, "rendering read back", y)
        if x.is_real and y.is_real and abs(x - y) > 1e-12 * (1 + abs(x)): bad = True
if bad:
    print("REPRODUCED"); sys.exit(1)
'''


def run(ctx):
    global TIMEOUT_MS
    thorough = ctx.tier == "thorough"
    TIMEOUT_MS = 30000 if thorough else 10000
    c17.TIMEOUT_MS = TIMEOUT_MS
    rng = random.Random(ctx.seed)
    d1 = c17.expand(c17.LEAVES)
    pool = c17.LEAVES + d1
    n2 = 40000 if thorough else 2500
    d2, seen = [], set()
    while len(d2) < n2:
        x = rng.choice(d1)
        if rng.random() < 0.25:
            r = rng.choice([("neg", x), ("sqrt", x), ("fn", "sin", x), ("abs", x), ("pow", x, ("c", rng.choice(list(c17.CONST)[:9])))])
        else:
            y = rng.choice(pool)
            op = rng.choice(["add", "mul", "div", "div", "pow", "sub", "mul"])
            r = (op, x, y) if rng.random() < 0.5 else (op, y, x)
        if r not in seen:
            seen.add(r)
            d2.append(r)
    d3 = []
    if thorough:
        while len(d3) < 20000:
            x, y = rng.choice(d2), rng.choice(pool)
            op = rng.choice(["mul", "div", "div", "pow", "sub"])
            d3.append((op, x, y) if rng.random() < 0.5 else (op, y, x))
    items = [(r, True) for r in d1 + d2 + d3 + c17.numeric_sum_trees()]
    files = docsrc.source_files()
    ctx.explanation = (
        "Engine S + independent LaTeX reader. Same programs as C17 (canonical trees; every :laws:latex:: member of every catalogue module in "
        "documentation source form) rendered by the real latex_str. (1) Well-formedness of EVERY rendering is a lexical scan (balanced braces, "
        "matched \\left/\\right and \\begin/\\end): no solver needed, reported as such. (2) The rendering is read back by vlib/latexparse.py "
        "(fractions, roots, powers, juxtaposition and \\cdot as product, \\left( \\right), \\left| \\right|, function notation with powers, "
        "\\log_b, \\operatorname, name-aware tokenisation on the LaTeX display names) and z3 decides value(original) != value(reading) over ALL "
        "positive real leaf values.")
    ctx.functions_encoded = ["docs.printer_latex.latex_str", "SymbolLatexPrinter._print_Mul/_print_div/_extract_minus_sign/_print_Add/_print_Function/_print_log/_print_ExpBase",
                             "docs.patch.patch_sympy_evaluate", "docs.parse.find_members_and_functions"]
    ctx.bounds = [f"trees: depth <= 1 exhaustive ({len(d1)}), depth 2 seed-sampled ({len(d2)})" + (f", depth 3 sampled ({len(d3)})" if d3 else ""),
                  f"all {len(files)} catalogue source files (every :laws:latex:: member)", "leaf values: all positive reals", f"z3 timeout {TIMEOUT_MS} ms"]
    ctx.outside = ["LaTeX constructs outside the reader's grammar (derivatives, integrals, sums, matrices, factorials) are opaque leaves when they are whole sub-expressions, "
                   "otherwise reported out_of_grammar (inconclusive; well-formedness still checked)", "negative/zero leaf values"]
    ctx.trusted = ["z3 nlsat", "vlib/latexparse.py", "SymPy arithmetic when rebuilding the read expression"]
    res = pmap(check_tree, items)
    groups = {}
    for r in res:
        if "error" in r:
            ctx.harness_errors.append(r["error"][-300:])
            continue
        v = r["verdict"]
        ctx.add_solver(1 if v in ("discharged", "candidate", "inconclusive") else 0, 0.0)
        if v == "discharged":
            ctx.ob(r["name"], "discharged", sample={"tree": r["name"], "rendering": r["text"]} if len(ctx.samples) < 6 and "div" in r["name"] else None)
        elif v == "out_of_grammar":
            ctx.ob(r["name"], "inconclusive", "out_of_grammar: " + r["why"][:60])
        elif v in ("unencoded", "inconclusive"):
            ctx.ob(r["name"], v, r["why"][:80])
        else:
            tree, ev = r["item"]
            key = f"C18:canonical:{tree[0]}({','.join(x[0] if isinstance(x, tuple) else str(x) for x in tree[1:])})"
            groups.setdefault(key, []).append(r)
    for key, lst in sorted(groups.items()):
        lst.sort(key=lambda r: len(r["name"]))
        for r in lst[:3]:
            if ctx.violation(key, f"{r['name']} = {r.get('expr')} renders as '{r['text']}': {r['why']} ({len(lst)} trees)", REPLAY_TREE.format(item=r["item"], vals=r["vals"])):
                break
    fres = pmap(check_file, files, chunk=4)
    nmem = 0
    for rl in fres:
        if isinstance(rl, dict):
            ctx.harness_errors.append(rl.get("error", "")[-300:])
            continue
        for r in rl:
            v = r["verdict"]
            if v == "discharged":
                if not r.get("trivial"):
                    nmem += 1
                ctx.ob(r["name"], "discharged", nontrivial=not r.get("trivial", False),
                       sample={"member": r["name"], "rendering": r.get("text")} if len(ctx.samples) < 10 and r.get("text") else None)
            elif v == "out_of_grammar":
                ctx.ob(r["name"], "inconclusive", "out_of_grammar: " + r["why"][:60])
            elif v in ("unencoded", "inconclusive"):
                ctx.ob(r["name"], v, r["why"][:80])
            else:
                ctx.violation("C18:" + r["name"], f"{r['name']} renders as '{r.get('text')}': {r['why']} {r.get('vals')}", REPLAY_FILE.format(file=r["file"], member=r["member"]))
    ctx.extra["catalogue_members_value_checked"] = nmem
