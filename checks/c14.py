"""C14 - coordinate-free vector algebra: simplification preserves value in R^3.

Engine S.  Expression *shapes* (programs) are enumerated from a grammar; each
shape is built with the REAL constructors (auto-evaluation = the simplifier
under test) and, separately, unevaluated followed by .doit(); the resulting
expression is translated to z3 with every vector symbol = 3 free Reals and the
shape's textbook meaning is computed independently on the same Reals.  z3
(QF_NRA) decides  meaning != result  for ALL real assignments.
"""
from __future__ import annotations

import itertools
import random

import sympy as sp
import z3

from vlib.par import pmap, with_timeout, ItemTimeout
from vlib.s2smt import Query, Unencodable, model_value
from vlib.vecsem import VecEnc, cross3, dot3, ZERO3, NumVec

LEVEL = "other"

_ENV = None
_KEEP = []


def env():
    """symbols are created once per process (ids = creation order in that process)"""
    global _ENV
    if _ENV is None:
        from symplyphysics.core.experimental import vectors as V
        from symplyphysics import Symbol
        # operand ordering inside the library is by id(): make "a<b<c<d" hold in every process so that a
        # shape (which names symbols by rank) denotes the same evaluation history in the checker and in a replay
        pool = sorted([V.VectorSymbol() for _ in range(4)], key=id)
        vs = []
        for n, o in zip("abcd", pool):
            o._display_name = o._display_latex = ("a" if n == "d" else n)  # two distinct symbols share a display name on purpose
            vs.append(o)
        k = sp.Symbol("k", real=True)
        l = sp.Symbol("l", real=True)
        t = sp.Symbol("t", real=True)
        fpool = [V.VectorFunction(arguments=(t,)) for _ in range(3)]
        apps = sorted([f(t) for f in fpool], key=id)   # applications are cached by sympy: same object every time
        fs = []
        for n, ap in zip("fgh", apps):
            ap.func._display_name = n
            fs.append(ap.func)
        # a vector function of TWO arguments whose parameter t is the second one: w(k, t)
        w2 = V.VectorFunction(arguments=(k, t))
        w2app = w2(k, t)
        w2._display_name = "w"
        fs.append(w2)
        apps = apps + [w2app]
        _KEEP.extend(apps)
        s = sp.Function("s", real=True)
        _ENV = dict(V=V, vs=vs, k=k, l=l, t=t, fs=fs, fapps=apps, s=s)
    return _ENV


SCALARS = ("k", "l", -1, 2, sp.Rational(1, 2))


def scalar_obj(s):
    E = env()
    if s == "k":
        return E["k"]
    if s == "l":
        return E["l"]
    if s == "s":
        return E["s"](E["t"])
    return sp.sympify(s)


# ---- shapes ------------------------------------------------------------
def V0(n=4):
    return [("v", i) for i in range(n)]


def V1(n=4, scal=("k", -1, 2)):
    base = V0(n)
    out = []
    for s in scal:
        out += [("sc", s, v) for v in base]
    for u, v in itertools.product(base, repeat=2):
        out.append(("add", u, v))
        out.append(("sub", u, v))
        out.append(("cross", u, v))
    return out


def is_scalar_shape(sh):
    return sh[0] in ("dot", "mixed", "norm", "smul", "sadd", "k")


# ---- building with the real code ---------------------------------------
def build(sh, evaluate=None):
    E = env()
    V = E["V"]
    kw = {} if evaluate is None else {"evaluate": evaluate}
    op = sh[0]
    if op == "v":
        return E["vs"][sh[1]]
    if op == "f":
        return E["fapps"][sh[1]]
    if op in ("sc", "scr"):
        # the coefficient is a scalar symbol / number, or itself a scalar SHAPE (dot, norm, mixed product ...); "scr" writes the
        # product as vector * coefficient (products of vectors are not known to commute, so SymPy keeps the written order)
        coef = build(sh[1], evaluate) if isinstance(sh[1], tuple) else scalar_obj(sh[1])
        return coef * build(sh[2], evaluate) if op == "sc" else build(sh[2], evaluate) * coef
    if op == "add":
        return build(sh[1], evaluate) + build(sh[2], evaluate)
    if op == "sub":
        return build(sh[1], evaluate) - build(sh[2], evaluate)
    if op == "cross":
        return V.VectorCross(build(sh[1], evaluate), build(sh[2], evaluate), **kw)
    if op == "dot":
        return V.VectorDot(build(sh[1], evaluate), build(sh[2], evaluate), **kw)
    if op == "mixed":
        return V.VectorMixedProduct(*[build(x, evaluate) for x in sh[1:]], **kw)
    if op == "norm":
        return V.VectorNorm(build(sh[1], evaluate), **kw)
    if op == "smul":
        return build(sh[1], evaluate) * build(sh[2], evaluate)
    if op == "sadd":
        return build(sh[1], evaluate) + build(sh[2], evaluate)
    if op == "k":
        return scalar_obj(sh[1])
    raise ValueError(op)


# ---- meaning (oracle): (value, d/dt value) on z3 terms -----------------
def meaning(sh, enc, want_d=False):
    E = env()
    V = E["V"]
    op = sh[0]
    z = z3.RealVal(0)
    if op == "v":
        return enc.vec(E["vs"][sh[1]]), ZERO3
    if op == "f":
        f = E["fapps"][sh[1]]
        return enc.vec(f), (enc.vec(V.VectorDerivative(f, E["t"])) if want_d else ZERO3)
    if op == "k":
        so = scalar_obj(sh[1])
        d = enc.tr(sp.Derivative(so, E["t"])) if (want_d and sh[1] == "s") else z
        return enc.tr(so), d
    if op in ("sc", "scr"):
        s, ds = meaning(sh[1] if isinstance(sh[1], tuple) else ("k", sh[1]), enc, want_d)
        v, dv = meaning(sh[2], enc, want_d)
        return tuple(s * c for c in v), tuple(ds * c + s * dc for c, dc in zip(v, dv))
    if op in ("add", "sub"):
        u, du = meaning(sh[1], enc, want_d)
        v, dv = meaning(sh[2], enc, want_d)
        sg = 1 if op == "add" else -1
        return tuple(a + sg * b for a, b in zip(u, v)), tuple(a + sg * b for a, b in zip(du, dv))
    if op == "cross":
        u, du = meaning(sh[1], enc, want_d)
        v, dv = meaning(sh[2], enc, want_d)
        c1, c2 = cross3(du, v), cross3(u, dv)
        return cross3(u, v), tuple(a + b for a, b in zip(c1, c2))
    if op == "dot":
        u, du = meaning(sh[1], enc, want_d)
        v, dv = meaning(sh[2], enc, want_d)
        return dot3(u, v), dot3(du, v) + dot3(u, dv)
    if op == "mixed":
        (a, da), (b, db), (c, dc) = (meaning(x, enc, want_d) for x in sh[1:])
        return dot3(a, cross3(b, c)), dot3(da, cross3(b, c)) + dot3(a, cross3(db, c)) + dot3(a, cross3(b, dc))
    if op == "norm":
        v, dv = meaning(sh[1], enc, want_d)
        y = enc.norm_of(v)
        if want_d:
            enc.domain.append(y != 0)
            return y, dot3(v, dv) / y
        return y, z
    if op == "smul":
        a, da = meaning(sh[1], enc, want_d)
        b, db = meaning(sh[2], enc, want_d)
        return a * b, da * b + a * db
    if op == "sadd":
        a, da = meaning(sh[1], enc, want_d)
        b, db = meaning(sh[2], enc, want_d)
        return a + b, da + db
    raise ValueError(op)


def num_meaning(sh, nv: NumVec, want_d=False):
    """same oracle on plain numbers (replay)"""
    E = env()
    V = E["V"]
    op = sh[0]
    Z = (sp.S.Zero,) * 3
    if op == "v":
        return nv.vec(E["vs"][sh[1]]), Z
    if op == "f":
        f = E["fapps"][sh[1]]
        return nv.vec(f), (nv.vec(V.VectorDerivative(f, E["t"])) if want_d else Z)
    if op == "k":
        so = scalar_obj(sh[1])
        return nv.scal(so), (nv.scal(sp.Derivative(so, E["t"])) if (want_d and sh[1] == "s") else sp.S.Zero)
    if op in ("sc", "scr"):
        s, ds = num_meaning(sh[1] if isinstance(sh[1], tuple) else ("k", sh[1]), nv, want_d)
        v, dv = num_meaning(sh[2], nv, want_d)
        return tuple(s * c for c in v), tuple(ds * c + s * dc for c, dc in zip(v, dv))
    if op in ("add", "sub"):
        u, du = num_meaning(sh[1], nv, want_d)
        v, dv = num_meaning(sh[2], nv, want_d)
        sg = 1 if op == "add" else -1
        return tuple(a + sg * b for a, b in zip(u, v)), tuple(a + sg * b for a, b in zip(du, dv))
    if op == "cross":
        u, du = num_meaning(sh[1], nv, want_d)
        v, dv = num_meaning(sh[2], nv, want_d)
        return cross3(u, v), tuple(a + b for a, b in zip(cross3(du, v), cross3(u, dv)))
    if op == "dot":
        u, du = num_meaning(sh[1], nv, want_d)
        v, dv = num_meaning(sh[2], nv, want_d)
        return dot3(u, v), dot3(du, v) + dot3(u, dv)
    if op == "mixed":
        (a, da), (b, db), (c, dc) = (num_meaning(x, nv, want_d) for x in sh[1:])
        return dot3(a, cross3(b, c)), dot3(da, cross3(b, c)) + dot3(a, cross3(db, c)) + dot3(a, cross3(b, dc))
    if op == "norm":
        v, dv = num_meaning(sh[1], nv, want_d)
        y = sp.sqrt(dot3(v, v))
        return y, (dot3(v, dv) / y if want_d else sp.S.Zero)
    if op == "smul":
        a, da = num_meaning(sh[1], nv, want_d)
        b, db = num_meaning(sh[2], nv, want_d)
        return a * b, da * b + a * db
    if op == "sadd":
        a, da = num_meaning(sh[1], nv, want_d)
        b, db = num_meaning(sh[2], nv, want_d)
        return a + b, da + db
    raise ValueError(op)


def shape_str(sh):
    op = sh[0]
    if op == "v":
        return "abcd"[sh[1]]
    if op == "f":
        return "fghw"[sh[1]] + ("(t)" if sh[1] < 3 else "(k,t)")
    if op == "k":
        return str(sh[1]) if sh[1] != "s" else "s(t)"
    if op == "sc":
        return f"{shape_str(sh[1]) if isinstance(sh[1], tuple) else (sh[1] if sh[1] != 's' else 's(t)')}*{shape_str(sh[2])}"
    if op == "scr":
        return f"{shape_str(sh[2])}*{shape_str(sh[1]) if isinstance(sh[1], tuple) else sh[1]}"
    if op in ("add", "sadd"):
        return f"({shape_str(sh[1])}+{shape_str(sh[2])})"
    if op == "sub":
        return f"({shape_str(sh[1])}-{shape_str(sh[2])})"
    if op == "smul":
        return f"{shape_str(sh[1])}*{shape_str(sh[2])}"
    return f"{op}({','.join(shape_str(x) for x in sh[1:])})"


TIMEOUT_MS = 10000
BUILD_TIMEOUT = 20


def _model_assign(enc, m):
    E = env()
    va = {}
    for i, v in enumerate(E["vs"]):
        key = ("vs", id(v))
        if key in enc.vecvars:
            va[i] = [str(model_value(m, c)) for c in enc.vecvars[key]]
    fa = {}
    for key, tv in enc.vecvars.items():
        if key[0] in ("vf", "vd"):
            idx = [str(f.name) for f in E["fs"]].index(key[1])
            fa[f"{key[0]}:{idx}"] = [str(model_value(m, c)) for c in tv]
    sa = {}
    for key, v in enc.vars.items():
        if key[0] == "sym":
            sa[str(key[1])] = str(model_value(m, v))
    for head, lst in enc.apps.items():
        if isinstance(head, tuple) and head[0] == "fn":
            sa["sf"] = str(model_value(m, lst[0][1]))
        if isinstance(head, tuple) and head[0] == "jet":
            sa["sd"] = str(model_value(m, lst[0][1]))
    return {"vec": va, "fn": fa, "scal": sa}


def check_shape(item):
    """worker: item = (shape, mode) with mode in auto / doit / diff"""
    sh, mode = item
    name = f"{mode}:{shape_str(sh)}"
    out = {"name": name, "shape": sh, "mode": mode, "queries": 0, "solver_s": 0.0}
    try:
        if mode == "auto":
            res = with_timeout(build, BUILD_TIMEOUT, sh)
        elif mode == "doit":
            res = with_timeout(lambda: build(sh, False).doit(), BUILD_TIMEOUT)
        elif mode == "diffu":        # the written (unevaluated) tree differentiated as it stands
            res = with_timeout(lambda: build(sh, False).diff(env()["t"]), BUILD_TIMEOUT)
        else:
            res = with_timeout(lambda: build(sh).diff(env()["t"]), BUILD_TIMEOUT)
    except ItemTimeout:
        out.update(verdict="candidate", why="non-termination (20 s)", assign={"vec": {}, "fn": {}, "scal": {}})
        return out
    except NotImplementedError as e:
        out.update(verdict="unencoded", why=f"library declares NotImplemented: {e}")
        return out
    except Exception as e:
        out.update(verdict="candidate", why=f"raised {type(e).__name__}: {e}", assign={"vec": {}, "fn": {}, "scal": {}})
        return out
    enc = VecEnc()
    want_d = mode in ("diff", "diffu")
    try:
        mv, md = meaning(sh, enc, want_d)
        target = md if want_d else mv
        if is_scalar_shape(sh):
            got = [enc.tr(res)]
            target = [target]
        else:
            got = list(enc.vec(res))
            target = list(target)
    except Unencodable as e:
        out.update(verdict="unencoded", why=str(e), result=str(res)[:200])
        return out
    import time
    s = z3.Solver()
    s.set("timeout", TIMEOUT_MS)
    for c in enc.assume + enc.side + enc.domain:
        s.add(c)
    s.add(z3.Or([g != t_ for g, t_ in zip(got, target)]))
    t0 = time.time()
    r = str(s.check())
    out["queries"] = 1
    out["solver_s"] = time.time() - t0
    out["result"] = str(res)[:160]
    if r == "unsat":
        out["verdict"] = "discharged"
    elif r == "sat":
        out.update(verdict="candidate", why="value differs", assign=_model_assign(enc, s.model()))
    else:
        out.update(verdict="inconclusive", why="unknown")
    return out


def higher_cases():
    """[(label, build -> library expression, oracle(D) -> components)] for second and third derivatives; D(i, n) is the n-th derivative of
    the i-th vector function (n = 0: the function), A(i) the i-th constant vector; Leibniz' rule written out"""
    E = env()
    V, t = E["V"], E["t"]
    f, g = E["fapps"][0], E["fapps"][1]
    a, b = E["vs"][0], E["vs"][1]
    add3 = lambda *vs: tuple(sum(v[i] for v in vs) for i in range(3))
    sc3 = lambda k, v: tuple(k * c for c in v)
    cases = []
    for n in (2, 3):
        binom = {2: (1, 2, 1), 3: (1, 3, 3, 1)}[n]
        cases += [
            (f"d^{n}/dt^{n} cross(f, a)", lambda n=n: V.VectorCross(f, a).diff(t, n), lambda D, A, n=n: cross3(D(0, n), A(0)), False),
            (f"d^{n}/dt^{n} cross(a, f)", lambda n=n: V.VectorCross(a, f).diff(t, n), lambda D, A, n=n: cross3(A(0), D(0, n)), False),
            (f"d^{n}/dt^{n} cross(f, g)", lambda n=n: V.VectorCross(f, g).diff(t, n),
             lambda D, A, n=n, binom=binom: add3(*[sc3(binom[j], cross3(D(0, n - j), D(1, j))) for j in range(n + 1)]), False),
            (f"d^{n}/dt^{n} dot(f, a)", lambda n=n: V.VectorDot(f, a).diff(t, n), lambda D, A, n=n: dot3(D(0, n), A(0)), True),
            (f"d^{n}/dt^{n} dot(f, g)", lambda n=n: V.VectorDot(f, g).diff(t, n),
             lambda D, A, n=n, binom=binom: sum(binom[j] * dot3(D(0, n - j), D(1, j)) for j in range(n + 1)), True),
            (f"d^{n}/dt^{n} mixed(f, a, b)", lambda n=n: V.VectorMixedProduct(f, a, b).diff(t, n), lambda D, A, n=n: dot3(D(0, n), cross3(A(0), A(1))), True),
            (f"d^{n}/dt^{n} mixed(a, f, g)", lambda n=n: V.VectorMixedProduct(a, f, g).diff(t, n),
             lambda D, A, n=n, binom=binom: sum(binom[j] * dot3(A(0), cross3(D(0, n - j), D(1, j))) for j in range(n + 1)), True),
            (f"d^{n}/dt^{n} cross(cross(f, a), b)", lambda n=n: V.VectorCross(V.VectorCross(f, a), b).diff(t, n), lambda D, A, n=n: cross3(cross3(D(0, n), A(0)), A(1)), False),
            (f"d/dt of d^{n-1}/dt^{n-1} cross(f, a)", lambda n=n: V.VectorCross(f, a).diff(t, n - 1).diff(t), lambda D, A, n=n: cross3(D(0, n), A(0)), False),
        ]
    # mixed second derivatives of a function of two parameters, w(k, t): d/dk d/dt and d/dt d/dk; Dw(spec) is the partial of w given
    # by spec = ((variable name, order), ...)
    w, kk = E["fapps"][3], E["k"]
    for first, second, tag in ((t, kk, "d/dk d/dt"), (kk, t, "d/dt d/dk")):
        cases += [
            (f"{tag} dot(w(k,t), a)", lambda first=first, second=second: V.VectorDot(w, a).diff(first).diff(second), lambda D, A: dot3(D(3, (("k", 1), ("t", 1))), A(0)), True),
            (f"{tag} cross(w(k,t), a)", lambda first=first, second=second: V.VectorCross(w, a).diff(first).diff(second), lambda D, A: cross3(D(3, (("k", 1), ("t", 1))), A(0)), False),
            (f"{tag} dot(w(k,t), f(t))", lambda first=first, second=second: V.VectorDot(w, f).diff(first).diff(second),
             lambda D, A: dot3(D(3, (("k", 1), ("t", 1))), D(0, 0)) + dot3(D(3, (("k", 1),)), D(0, 1)), True),
            (f"{tag} k*w(k,t)", lambda first=first, second=second: (kk * w).diff(first).diff(second),
             lambda D, A: add3(D(3, (("t", 1),)), sc3(A("k"), D(3, (("k", 1), ("t", 1))))), False),
        ]
    return cases


def check_higher(idx):
    import time
    E = env()
    V, t = E["V"], E["t"]
    label, mk, oracle, scalar = higher_cases()[idx]
    out = {"name": "higher:" + label, "shape": idx, "mode": "higher", "queries": 0, "solver_s": 0.0}
    try:
        res = with_timeout(mk, BUILD_TIMEOUT)
    except ItemTimeout:
        out.update(verdict="candidate", why="non-termination (20 s)")
        return out
    except Exception as e:
        out.update(verdict="candidate", why=f"raised {type(e).__name__}: {e}")
        return out
    enc = VecEnc()
    def D(i, n):
        if n == 0:
            return enc.vec(E["fapps"][i])
        if isinstance(n, tuple):          # a (mixed) partial: ((variable name, order), ...)
            return enc.vec(V.VectorDerivative(E["fapps"][i], *[(E[nm], o) for nm, o in n]))
        return enc.vec(V.VectorDerivative(E["fapps"][i], (t, n)))
    A = lambda i: enc.tr(E[i]) if isinstance(i, str) else enc.vec(E["vs"][i])
    try:
        want = oracle(D, A)
        got, want = ([enc.tr(res)], [want]) if scalar else (list(enc.vec(res)), list(want))
    except Unencodable as e:
        out.update(verdict="unencoded", why=str(e), result=str(res)[:200])
        return out
    s = z3.Solver()
    s.set("timeout", TIMEOUT_MS)
    for c in enc.assume + enc.side + enc.domain:
        s.add(c)
    s.add(z3.Or([g_ != w_ for g_, w_ in zip(got, want)]))
    t0 = time.time()
    r = str(s.check())
    out["queries"], out["solver_s"], out["result"] = 1, time.time() - t0, str(res)[:160]
    if r == "unsat":
        out["verdict"] = "discharged"
    elif r == "sat":
        out.update(verdict="candidate", why="value differs")
    else:
        out.update(verdict="inconclusive", why="unknown")
    return out


REPLAY_HIGHER = r'''
import sys, random
import sympy as sp
from checks import c14
from vlib.vecsem import NumVec
idx = {idx!r}
E = c14.env()
label, mk, oracle, scalar = c14.higher_cases()[idx]
try:
    from vlib.par import with_timeout, ItemTimeout
    res = with_timeout(mk, 60)
except ItemTimeout:
    print("REPRODUCED:", label, "does not terminate within 60 s"); sys.exit(1)
except Exception as e:
    print("REPRODUCED:", label, "raised", type(e).__name__, e); sys.exit(1)
random.seed(5)
rnd3 = lambda: [sp.Rational(random.randint(-4, 4), random.randint(1, 3)) for _ in range(3)]
va = {{id(v): rnd3() for v in E["vs"]}}
fa = {{}}
for f in E["fs"]:
    fa[("vf", str(f.name))] = rnd3(); fa[("vd", str(f.name))] = rnd3()
    for n in (1, 2, 3, 4): fa[("vd", str(f.name), n)] = rnd3()
names = [str(f.name) for f in E["fs"]]
for spec in ((("k", 1),), (("t", 1),), (("k", 1), ("t", 1)), (("k", 2),), (("t", 2),)):
    fa[("vd", names[3], spec)] = rnd3()
sa = {{"t": sp.Rational(1, 3), "k": sp.Rational(5, 3)}}
nv = NumVec(va, sa, fa)
def D(i, n):
    if n == 0: return tuple(fa[("vf", names[i])])
    if isinstance(n, tuple): return tuple(fa[("vd", names[i], tuple(sorted(n)))])
    return tuple(fa[("vd", names[i], (("t", n),))]) if ("vd", names[i], (("t", n),)) in fa else tuple(fa[("vd", names[i], n)])
A = lambda i: sa[i] if isinstance(i, str) else tuple(va[id(E["vs"][i])])
want = oracle(D, A)
got, want = ([nv.scal(res)], [want]) if scalar else (list(nv.vec(res)), list(want))
print(label); print("library result:", res); print("value of result:", got, " Leibniz:", want)
if any(abs(sp.N(g - w, 30)) > 1e-15 for g, w in zip(got, want)):
    print("REPRODUCED"); sys.exit(1)
'''


REPLAY = r'''
import sys
import sympy as sp
from checks import c14
from vlib.vecsem import NumVec
sh = {shape!r}
mode = {mode!r}
assign = {assign!r}
E = c14.env()
try:
    from vlib.par import with_timeout, ItemTimeout
    if mode == "auto": res = with_timeout(c14.build, 60, sh)
    elif mode == "doit": res = with_timeout(lambda: c14.build(sh, False).doit(), 60)
    elif mode == "diffu": res = with_timeout(lambda: c14.build(sh, False).diff(E["t"]), 60)
    else: res = with_timeout(lambda: c14.build(sh).diff(E["t"]), 60)
except ItemTimeout:
    print("REPRODUCED: evaluation of", c14.shape_str(sh), "does not terminate within 60 s"); sys.exit(1)
except NotImplementedError as e:
    print("not implemented", e); sys.exit(0)
except Exception as e:
    print("REPRODUCED: evaluation of", c14.shape_str(sh), "raised", type(e).__name__, e); sys.exit(1)
import random
random.seed(7)
def rnd(): return sp.Rational(random.randint(-4, 4), random.randint(1, 3))
va = {{}}
for i, v in enumerate(E["vs"]):
    va[id(v)] = [sp.Rational(x) for x in assign["vec"].get(i, assign["vec"].get(str(i), [rnd(), rnd(), rnd()]))]
fa = {{}}
for i, f in enumerate(E["fs"]):
    for kind in ("vf", "vd"):
        fa[(kind, str(f.name))] = [sp.Rational(x) for x in assign["fn"].get(f"{{kind}}:{{i}}", [rnd(), rnd(), rnd()])]
fa[("sf", "s")] = sp.Rational(assign["scal"].get("sf", "3/2"))
fa[("sd", "s")] = sp.Rational(assign["scal"].get("sd", "-2/3"))
sa = {{"k": sp.Rational(assign["scal"].get("k", "5/3")), "l": sp.Rational(assign["scal"].get("l", "-7/2")), "t": sp.Rational(assign["scal"].get("t", "1/3"))}}
nv = NumVec(va, sa, fa)
mv, md = c14.num_meaning(sh, nv, mode in ("diff", "diffu"))
want = md if mode in ("diff", "diffu") else mv
if c14.is_scalar_shape(sh):
    got = [nv.scal(res)]; want = [want]
else:
    got = list(nv.vec(res)); want = list(want)
bad = False
for g, w in zip(got, want):
    g = sp.N(g, 30); w = sp.N(w, 30)
    if abs(g - w) > sp.Float("1e-15") * (1 + abs(g) + abs(w)): bad = True
print("shape:", c14.shape_str(sh), "mode:", mode); print("library result:", res); print("value of result:", got, " true value:", want)
if bad:
    print("REPRODUCED"); sys.exit(1)
'''


def run(ctx):
    global TIMEOUT_MS
    thorough = ctx.tier == "thorough"
    TIMEOUT_MS = 15000 if thorough else 10000
    rng = random.Random(ctx.seed)
    v0, v1 = V0(), V1()
    v01 = v0 + v1
    items = []
    # depth <= 1 everything, both modes
    d1 = [("dot", u, v) for u, v in itertools.product(v0, repeat=2)] + \
         [("mixed", u, v, w) for u, v, w in itertools.product(v0, repeat=3)] + \
         [("norm", v) for v in v0] + [("cross", u, v) for u, v in itertools.product(v0, repeat=2)] + v1
    # depth 2
    d2 = [("dot", u, v) for u, v in itertools.product(v01, repeat=2) if u in v1 or v in v1] + \
         [("cross", u, v) for u, v in itertools.product(v01, repeat=2) if u in v1 or v in v1] + \
         [("norm", v) for v in v1]
    for pos in range(3):
        for x in v1:
            for u, v in itertools.product(v0, repeat=2):
                args = [u, v]
                args.insert(pos, x)
                d2.append(("mixed", *args))
    # scalar combinations (sympy Add/Mul over products)
    s0 = [("dot", ("v", 0), ("v", 1)), ("norm", ("v", 0)), ("mixed", ("v", 0), ("v", 1), ("v", 2)), ("k", "k"),
          ("dot", ("cross", ("v", 0), ("v", 1)), ("v", 2)), ("norm", ("sc", "k", ("v", 1)))]
    d2 += [("smul", a, b) for a, b in itertools.product(s0, repeat=2)] + [("sadd", a, b) for a, b in itertools.product(s0, repeat=2)]
    d2 += [("sc", s, x) for s in ("k", -1) for x in v1]
    # linear combinations with scalar coefficients, shared (k a + k b) or not (k a + l b), under norm / dot / cross
    for s1, s2 in itertools.product(("k", "l", -1, 2), repeat=2):
        for u, v in itertools.permutations(v0[:3], 2):
            x = ("add", ("sc", s1, u), ("sc", s2, v))
            d2 += [("dot", x, ("v", 3)), ("cross", ("v", 3), x)]
            if (s1, s2) in (("k", "k"), ("k", "l"), (-1, -1), (2, 2), ("k", -1)) and (u, v) in ((("v", 0), ("v", 1)), (("v", 2), ("v", 0))):
                d2 += [("norm", x), ("norm", ("sub", ("sc", s1, u), ("sc", s2, v)))]       # norms are the expensive queries (square roots)
    # vectors whose coefficient is itself a product of vectors (dot, norm, mixed, k*dot): coefficient extraction must keep it
    coefs = [("dot", ("v", 2), ("v", 3)), ("norm", ("v", 2)), ("smul", ("k", "k"), ("dot", ("v", 0), ("v", 1))), ("mixed", ("v", 1), ("v", 2), ("v", 3))]
    for cf in coefs:
        for x in (("cross", ("v", 0), ("v", 1)), ("v", 0), ("add", ("v", 0), ("cross", ("v", 1), ("v", 2)))):
            for y in (("sc", cf, x), ("scr", cf, x)):
                d2 += [("dot", y, ("v", 3)), ("dot", ("v", 1), y), ("cross", y, ("v", 3)), ("norm", y), ("mixed", y, ("v", 2), ("v", 3))]
    d2 = list(dict.fromkeys(d2))
    full = d1 + d2
    if not thorough:
        # quick: depth<=1 exhaustive in both modes, depth 2 exhaustive in auto mode; doit mode on a seed-chosen third
        items = [(sh, "auto") for sh in full] + [(sh, "doit") for sh in d1] + \
                [(sh, "doit") for sh in rng.sample(d2, len(d2) // 3)]
    else:
        items = [(sh, m) for sh in full for m in ("auto", "doit")]
        # depth 3: cross/dot/mixed/norm with a depth-2 vector argument
        v2 = [("cross", u, v) for u, v in itertools.product(v01, repeat=2) if u in v1 or v in v1] + \
             [("add", u, v) for u in v1 for v in v1 if rng.random() < 0.05] + [("sc", "k", x) for x in v1]
        d3 = []
        N = 20000
        for _ in range(N):
            kind = rng.choice(["dot", "cross", "mixed", "norm", "dot", "cross"])
            x = rng.choice(v2)
            if kind == "norm":
                d3.append(("norm", x))
            elif kind == "mixed":
                args = [rng.choice(v01), rng.choice(v0)]
                args.insert(rng.randrange(3), x)
                d3.append(("mixed", *args))
            else:
                y = rng.choice(v01 + v2 if rng.random() < 0.3 else v01)
                d3.append((kind, x, y) if rng.random() < 0.5 else (kind, y, x))
        d3 = list(dict.fromkeys(d3))
        items += [(sh, "auto") for sh in d3] + [(sh, "doit") for sh in d3[:len(d3) // 4]]
    # derivative shapes
    f0 = [("f", i) for i in range(3)]
    fl = f0 + [("v", 0)] + [("sc", "k", f0[0]), ("sc", "s", f0[0]), ("add", f0[0], f0[1]), ("sub", f0[1], ("v", 0)),
                             ("cross", f0[0], f0[1]), ("cross", ("v", 0), f0[1]), ("sc", "s", ("v", 1)), ("cross", f0[0], f0[0])]
    w2s = ("f", 3)
    fl = fl + [w2s, ("sc", "k", w2s), ("cross", w2s, f0[0]), ("add", w2s, f0[1])]
    dsh = [("dot", u, v) for u, v in itertools.product(fl, repeat=2)] + [("cross", u, v) for u, v in itertools.product(fl, repeat=2)] + \
          [("norm", u) for u in fl] + list(fl)
    if thorough:
        dsh += [("mixed", u, v, w) for u, v, w in itertools.product(fl, repeat=3)]
        dsh += [("smul", ("k", "s"), x) for x in [("dot", f0[0], f0[1]), ("norm", f0[0]), ("mixed", f0[0], f0[1], f0[2])]]
        dsh += [("cross", ("cross", u, v), w) for u, v, w in itertools.product(f0 + [("v", 0)], repeat=3)]
    else:
        dsh += [("mixed", u, v, w) for u, v, w in itertools.product(f0 + [("v", 0)], repeat=3)]
        dsh += [("mixed", ("cross", f0[0], f0[1]), f0[2], ("v", 0)), ("mixed", ("sc", "s", f0[0]), f0[1], f0[2])]
    items += [(sh, "diff") for sh in dsh]
    # the same derivative taken of the tree as written (evaluate=False): products whose dependence on t sits in a scalar coefficient or
    # in a nested product
    items += [(sh, "diffu") for sh in dsh if sh[0] in ("dot", "cross", "mixed", "norm")]

    ctx.explanation = (
        "Engine S. Programs = expression shapes from the grammar V ::= v | k*V | V+V | V-V | cross(V,V); "
        "S ::= dot | mixed | norm | S*S | S+S over 4 vector symbols (all assignments of symbols to slots, hence all "
        "relative id() orders and repeated operands) and scalars k, l, -1, 2. Each shape is evaluated by the real "
        "constructors (mode auto), by evaluate=False + .doit() (mode doit), or differentiated by the real "
        "_eval_derivative chain (mode diff, vector functions of t as 1-jets). The result is translated to z3 with each "
        "vector = 3 free Reals; the oracle value is computed from the textbook component formulas (product rule for diff). "
        "Query: exists reals with result != meaning ? unsat = simplification is value-preserving for ALL real assignments.")
    ctx.functions_encoded = ["VectorDot.__new__", "VectorCross.__new__", "VectorMixedProduct.__new__", "VectorNorm.__new__",
                             "VectorCross._eval_vector_dot", "VectorCross._eval_vector_cross", "_ordered_mul", "sort_with_sign",
                             "split_factor", "into_terms", "is_vector_expr", "*._eval_derivative", "AppliedVectorFunction._eval_derivative"]
    ctx.bounds = ["quick: all shapes of nesting depth <= 2 in auto mode (dot/cross/mixed/norm over V<=1 operands), depth<=1 + a third of depth 2 in doit mode",
                  "thorough: both modes at depth <= 2, plus seed-sampled depth-3 shapes (20000 draws)",
                  "4 vector symbols, 3 vector functions, 2 scalar symbols, 1 scalar function",
                  f"z3 timeout {TIMEOUT_MS} ms per query; evaluation time limit {BUILD_TIMEOUT} s (termination)"]
    ctx.outside = ["deeper nesting than stated", "complex scalars", "vector functions of several arguments / chain rule (library raises NotImplementedError)",
                   "symbols created in another process order are covered by enumerating all slot assignments (operand order is by id)"]
    ctx.trusted = ["z3 nlsat", "SymPy Add/Mul/Pow arithmetic", "vlib.vecsem component semantics (textbook definitions)"]
    res = pmap(check_shape, items)
    n_by = {}
    cands = []
    for r in res:
        if "error" in r:
            ctx.harness_errors.append(r["error"][-300:])
            continue
        ctx.add_solver(r.get("queries", 0), r.get("solver_s", 0.0))
        n_by[r["mode"]] = n_by.get(r["mode"], 0) + 1
        v = r["verdict"]
        if v == "discharged":
            smp = None
            if len(ctx.samples) < 8 and r["shape"][0] in ("dot", "cross", "mixed") and any(isinstance(x, tuple) and x[0] == "cross" for x in r["shape"][1:]):
                smp = {"shape": shape_str(r["shape"]), "mode": r["mode"], "library_result": r.get("result"), "verdict": "unsat (value-equal for all reals)"}
            ctx.ob(r["name"], "discharged", sample=smp)
        elif v in ("unencoded", "inconclusive"):
            ctx.ob(r["name"], v, r.get("why"))
        else:
            cands.append(r)
    # second and third derivatives (Leibniz' rule written out; derivatives of every order are independent free vectors)
    nh = len(higher_cases())
    for r in pmap(check_higher, list(range(nh))):
        if "error" in r:
            ctx.harness_errors.append(r["error"][-300:])
            continue
        ctx.add_solver(r.get("queries", 0), r.get("solver_s", 0.0))
        n_by["higher"] = n_by.get("higher", 0) + 1
        if r["verdict"] == "discharged":
            ctx.ob(r["name"], "discharged")
        elif r["verdict"] in ("unencoded", "inconclusive"):
            ctx.ob(r["name"], r["verdict"], r.get("why"))
        else:
            ctx.violation("C14:" + r["name"], f"{r['name']} -> {r.get('result')}: {r['why']}", REPLAY_HIGHER.format(idx=r["shape"]))
    ctx.extra["programs"] = len(items) + nh
    ctx.extra["shapes_by_mode"] = n_by
    # group candidate violations by root cause key: the rule that fired = (mode, top op, arg ops)
    seen = {}
    for r in cands:
        sh = r["shape"]
        key = f"C14:{r['mode']}:{sh[0]}({','.join(x[0] if isinstance(x, tuple) else str(x) for x in sh[1:])})"
        seen.setdefault(key, []).append(r)
    for key, lst in sorted(seen.items()):
        lst.sort(key=lambda r: len(shape_str(r["shape"])))
        r = lst[0]
        script = REPLAY.format(shape=r["shape"], mode=r["mode"], assign=r["assign"])
        ctx.violation(key, f"{shape_str(r['shape'])} -> {r.get('result')}: {r['why']} ({len(lst)} shapes in this class)", script,
                      extra={"shapes": [shape_str(x["shape"]) for x in lst[:20]]})
