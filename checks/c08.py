"""C08 - the approximate-equality oracle (engine L).

Real approx_equal_numbers / approx_equal_quantities / assert_equal /
assert_equal_vectors run natively on quantities whose real and imaginary
scale-factor parts, tolerances and dimension vectors are z3 Reals.  pytest.approx
is replaced by a model of ApproxScalar (validated against the real one on
solver-chosen points on every run); float() is the identity on symbolic reals.
"""
from __future__ import annotations

import itertools
from fractions import Fraction

import sympy as sp
import z3

from vlib import lift
from vlib.lift import (Session, explore, coverage_ok, make_quantity, to_vec, erase_angle, vec_eq, vec_zero, rebound, standard_bindings,
                       LiftUnsupported, LiftedApprox, lifted_float)
from vlib.s2smt import model_value, qv

LEVEL = "other"
RHO0 = Fraction(1, 1000)
MARGIN = Fraction(1, 10**9)


def bindings():
    from symplyphysics.core import approx as AP
    # `complex` is not used by approx.py today; binding it keeps a complex-valued comparison executable symbolically
    return standard_bindings() + [(AP, "approx", LiftedApprox), (AP, "float", lifted_float), (AP, "complex", lift.lifted_complex_number)]


def zabs(t):
    return z3.If(t >= 0, t, -t)


def zmax(a, b):
    return z3.If(a >= b, a, b)


REPLAY = r'''
import sys
import sympy as sp
from fractions import Fraction
from sympy.physics import units
from symplyphysics import Quantity, dimensionless, assert_equal
from symplyphysics.core.approx import assert_equal_vectors
from symplyphysics.core.vectors.vectors import QuantityVector
from sympy.physics.units.definitions.dimension_definitions import angle as angle_type
BASE = [units.mass, units.length, units.time, units.current, units.temperature, units.amount_of_substance, units.luminous_intensity, angle_type]
def mkdim(exps):
    d = dimensionless
    for b, e in zip(BASE, exps):
        e = sp.Rational(e)
        if e != 0: d = d * b**e
    return d
case = {case!r}
F = lambda s: float(Fraction(s))
l = complex(F(case["lr"]), F(case["li"])); r = complex(F(case["rr"]), F(case["ri"]))
rel = None if case["rel"] is None else F(case["rel"]); ab = None if case["abs"] is None else F(case["abs"])
kw = {{}}
if rel is not None: kw["relative_tolerance"] = rel
if ab is not None: kw["absolute_tolerance"] = ab
dA, dB = mkdim(case["A"]), mkdim(case["B"])
def call(swap=False):
    lq = Quantity(l if l.imag else l.real, dimension=dA); rq = Quantity(r if r.imag else r.real, dimension=dB)
    if case["mode"] == "bare":
        args = (lq, (r if r.imag else r.real)); kk = dict(kw)
        if case.get("dimension") is not None: kk["dimension"] = mkdim(case["dimension"])
    elif case["mode"] == "dimkw":
        args = (lq, rq); kk = dict(kw); kk["dimension"] = dA
    else:
        args = ((rq, lq) if swap else (lq, rq)); kk = kw
    try:
        assert_equal(*args, **kk); return "pass"
    except AssertionError: return "fail"
    except Exception as e: return "refused:" + type(e).__name__
got = call()
print("assert_equal(", l, dA, ",", r, dB, kw, case["mode"], ") ->", got, "; statement:", case["want"])
bad = False
if case["want"] == "must_fail" and got == "pass": bad = True
if case["want"] == "must_pass" and got != "pass": bad = True
if case["want"] == "must_refuse" and got == "pass": bad = True
if case["want"] == "symmetric":
    g2 = call(swap=True); print("swapped ->", g2)
    if (got == "pass") != (g2 == "pass"): bad = True
if bad:
    print("REPRODUCED"); sys.exit(1)
'''


def validate_approx_model(ctx):
    """the ApproxScalar model against the real pytest.approx on solver-chosen points (both verdicts, all tolerance forms)"""
    import pytest
    ses = Session(ctx)
    n = 0
    with ses.active():
        a, e, rel, ab = (z3.Real(x) for x in ("va", "ve", "vrel", "vabs"))
        for rel_given, abs_given, verdict, sign in itertools.product([True, False], [True, False], [True, False], [1, -1]):
            ap = LiftedApprox.__new__(LiftedApprox)
            ap.e, ap.ec, ap.rel_given, ap.abs_given = e, None, rel_given, abs_given
            ap.rel = rel if rel_given else qv(Fraction(1, 10**6))
            ap.abs = ab if abs_given else qv(Fraction(1, 10**12))
            ses.assume = [rel >= 0, ab >= 0, rel <= 1, e * sign > 0, a != e]
            ses.run = lift.Run([])
            try:
                cond = ap.__eq__(lift.SymFloat(a)).cond
            finally:
                ses.run = None
            # stay a relative 1e-6 away from the boundary so that double rounding cannot flip the verdict
            tol = ap.abs if (not rel_given and abs_given) else zmax(ap.rel * zabs(e), ap.abs)
            away = z3.Or(zabs(a - e) <= tol * qv(Fraction(999999, 1000000)), zabs(a - e) >= tol * qv(Fraction(1000001, 1000000)))
            r, m = ses.check([cond if verdict else z3.Not(cond), away, zabs(a - e) > qv(Fraction(1, 10**6)) * tol, zabs(e) < 10**6, tol > qv(Fraction(1, 10**9))])
            if r != "sat":
                continue
            fa, fe = float(model_value(m, a)), float(model_value(m, e))
            kw = {}
            if rel_given:
                kw["rel"] = float(model_value(m, rel))
            if abs_given:
                kw["abs"] = float(model_value(m, ab))
            real = (fa == pytest.approx(fe, **kw))
            n += 1
            if real != verdict:
                raise lift.LiftUnsupported(f"ApproxScalar model disagrees with pytest.approx at a={fa}, e={fe}, {kw}: model {verdict}, real {real}")
    return n


def run(ctx):
    from symplyphysics.core import approx as AP
    from symplyphysics.core.errors import UnitsError
    from symplyphysics.core.vectors.vectors import QuantityVector
    ctx.explanation = (
        "Engine L. The real approx_equal_numbers/approx_equal_quantities/assert_equal/assert_equal_vectors run natively with lhs = quantity "
        "(lr + i*li, dimension A) and rhs = quantity (rr + i*ri, dimension B) or a bare number, all four parts, both tolerances and both "
        "8-exponent dimension vectors being z3 Reals; pytest.approx is a model of ApproxScalar. Per path z3 decides the statement's clauses: "
        "(i) pass => dimensions equivalent (or an operand is exactly zero) and both parts within max(abs_tol, rel_tol*max(|l|,|r|)); "
        "(ii) both parts within the stated tolerance and dimensions equivalent => pass; (iii) no abs_tol => verdict symmetric under swapping; "
        "(iv) dimension keyword never replaces the operand's own dimension; (v) bare number without dimension against a dimensional quantity is "
        "refused; (vi) vectors: component-wise with equal lengths.")
    ctx.functions_encoded = ["approx.approx_equal_numbers", "approx.approx_equal_quantities", "approx.assert_equal", "approx.assert_equal_vectors",
                             "dimensions.assert_equivalent_dimension", "Quantity.__init__ (bare-number rhs)"]
    ctx.stubs = list(lift.STANDARD_STUBS) + ["pytest.approx -> LiftedApprox (model of ApproxScalar: a == e or |a-e| <= tolerance; tolerance = abs if only abs given else max(rel*|e|, abs)); validated against the real pytest.approx on solver-chosen points each run",
                                             "float() in core.approx namespace -> identity on symbolic reals"]
    ctx.bounds = ["all real/complex scale factors (4 Reals), tolerances >= 0 (None / symbolic), all real dimension vectors; vectors of 0..3 components",
                  "violation queries keep a relative margin of 1e-9 from the tolerance boundary (float rounding is outside the claim)"]
    ctx.outside = ["NaN/inf operands", "negative tolerances", "double rounding within 1e-9 of the boundary"]
    ctx.trusted = ["z3", "the ApproxScalar model (validated each run)", "stubs listed"]
    try:
        nval = validate_approx_model(ctx)
    except lift.LiftUnsupported as e:
        from vlib.report import HarnessError
        raise HarnessError(str(e))
    ctx.extra["approx_model_points_validated_against_pytest"] = nval
    tolforms = [(False, False), (True, False), (False, True), (True, True)]
    for cplx, (has_rel, has_abs), mode in itertools.product([False, True], tolforms, ["qty", "bare", "dimkw", "qty-same", "qty-real-vs-complex", "qty-complex-vs-real"]):
        if mode not in ("qty", "qty-real-vs-complex", "qty-complex-vs-real") and cplx and ctx.tier == "quick":
            continue
        if mode in ("qty-real-vs-complex", "qty-complex-vs-real") and not cplx:
            continue
        ses = Session(ctx)
        name = f"{mode}:{'complex' if cplx else 'real'}:rel={'given' if has_rel else 'default'}:abs={'given' if has_abs else 'none'}"
        with ses.active(), rebound(*bindings()):
            lr, li, rr, ri = (ses.scalar(n) for n in ("lr", "li", "rr", "ri"))
            if mode == "qty-same":
                # the diagonal: both operands carry the SAME scalar.  Distinct symbolic scalars never compare equal with Python's ==
                # (SymPy equality is structural), so code that short-cuts on `lhs.scale_factor == rhs.scale_factor` is reachable only here.
                rr, ri = lr, li
            rho, alpha = ses.scalar("rho"), ses.scalar("alpha")
            A, B, K = ses.dim("A"), ses.dim("B"), ses.dim("K")
            # mixed modes: one operand is written WITHOUT an imaginary part (structurally real), the other is complex
            lcplx = cplx and mode != "qty-real-vs-complex"
            rcplx = cplx and mode != "qty-complex-vs-real"
            zl = [ses.z(lr), ses.z(li) if lcplx else z3.RealVal(0)]
            zr = [ses.z(rr), ses.z(ri) if rcplx else z3.RealVal(0)]
            zrho = ses.z(rho) if has_rel else qv(RHO0)
            zalpha = ses.z(alpha) if has_abs else None
            ses.assume += [ses.z(rho) >= 0, ses.z(alpha) >= 0]
            lq = make_quantity(lr + sp.I * li if lcplx else lr, A)
            rscale = rr + sp.I * ri if rcplx else rr
            rq = make_quantity(rscale, B)
            kw = {}
            if has_rel:
                kw["relative_tolerance"] = lift.SymFloat(ses.z(rho), rho)
            if has_abs:
                kw["absolute_tolerance"] = lift.SymFloat(ses.z(alpha), alpha)
            if mode in ("qty", "qty-same", "qty-real-vs-complex", "qty-complex-vs-real"):
                call = lambda: AP.assert_equal(lq, rq, **kw)
                call_sw = lambda: AP.assert_equal(rq, lq, **kw)
                Bv = B.vec
            elif mode == "bare":
                call = lambda: AP.assert_equal(lq, rscale, **kw)        # bare number, no dimension
                Bv = [z3.RealVal(0)] * 8
            else:
                call = lambda: AP.assert_equal(lq, rq, dimension=K, **kw)   # dimension keyword with a quantity rhs: must not override
                Bv = B.vec
            try:
                paths = explore(call)
            except LiftUnsupported as e:
                ctx.ob(name, "unencoded", str(e))
                continue
            cov = coverage_ok(paths)
            ctx.ob(name + ":coverage", "discharged" if cov == "covered" else "inconclusive", cov, sample={"harness": name, "paths": len(paths)})
            lzero = z3.And(zl[0] == 0, zl[1] == 0)
            rzero = z3.And(zr[0] == 0, zr[1] == 0)
            dims_ok = z3.Or(vec_eq(erase_angle(A.vec), erase_angle(Bv)), lzero, rzero)
            big = [zmax(zabs(a), zabs(b)) for a, b in zip(zl, zr)]
            diff = [zabs(a - b) for a, b in zip(zl, zr)]
            loose = [zmax(zalpha if zalpha is not None else z3.RealVal(0), zrho * g) for g in big]
            stated = [zalpha if zalpha is not None else zrho * g for g in big]
            within_loose = z3.And([d <= t * (1 + qv(MARGIN)) for d, t in zip(diff, loose)])
            within_stated = z3.And([d <= t * (1 - qv(MARGIN)) for d, t in zip(diff, stated)])

            def case(m, want):
                mv = lambda t: str(model_value(m, t))
                return dict(lr=mv(zl[0]), li=mv(zl[1]), rr=mv(zr[0]), ri=mv(zr[1]), rel=mv(zrho) if has_rel else None,
                            abs=mv(zalpha) if has_abs else None, A=[mv(c) for c in A.vec], B=[mv(c) for c in Bv], mode=mode, want=want,
                            dimension=None)
            for i, p in enumerate(paths):
                pname = f"{name}:path{i}"
                passed = p.kind == "ret"
                failed = p.kind == "exc" and isinstance(p.value, AssertionError)
                refused = p.kind == "exc" and isinstance(p.value, (TypeError, UnitsError))
                if not (passed or failed or refused):
                    r, m = ses.check(p.pc)
                    if r == "sat":
                        ctx.violation(f"C08:{mode}:unexpected", f"{name}: raised {type(p.value).__name__}: {p.value}", REPLAY.format(case=case(m, "must_pass")))
                    continue
                if passed:
                    # (i): pass => dims ok and within the loose bound
                    r, m = ses.check(p.pc + [z3.Not(z3.And(dims_ok, within_loose))])
                    if r == "unsat":
                        ctx.ob(pname + ":pass=>sound", "discharged")
                    elif r == "sat":
                        ctx.violation(f"C08:{mode}:{'complex' if cplx else 'real'}:pass-unsound",
                                      f"{name}: assertion passes although dimensions are inequivalent or a part differs by more than the tolerance", REPLAY.format(case=case(m, "must_fail")))
                    else:
                        ctx.ob(pname + ":pass=>sound", "inconclusive", "unknown")
                else:
                    # (ii): within stated tolerance and equivalent dims => pass, i.e. this failing/refusing path has none of those inputs
                    strict_dims = vec_eq(erase_angle(A.vec), erase_angle(Bv))
                    r, m = ses.check(p.pc + [strict_dims, within_stated])
                    if r == "unsat":
                        ctx.ob(pname + ":fail=>justified", "discharged")
                    elif r == "sat":
                        ctx.violation(f"C08:{mode}:{'complex' if cplx else 'real'}:fail-unjustified",
                                      f"{name}: assertion {'fails' if failed else 'is refused'} although operands are within the stated tolerance with equivalent dimensions",
                                      REPLAY.format(case=case(m, "must_pass")))
                    else:
                        ctx.ob(pname + ":fail=>justified", "inconclusive", "unknown")
                if mode == "bare" and passed:
                    # (v) bare number vs dimensional lhs must not pass unless an operand is zero
                    r, m = ses.check(p.pc + [z3.Not(vec_zero(erase_angle(A.vec))), z3.Not(lzero), z3.Not(rzero)])
                    if r == "unsat":
                        ctx.ob(pname + ":bare-refused", "discharged")
                    elif r == "sat":
                        ctx.violation("C08:bare:accepted", f"{name}: a bare number was compared with a dimensional quantity without an explicit dimension",
                                      REPLAY.format(case=case(m, "must_refuse")))
            # (iii) symmetry without absolute tolerance
            if mode == "qty" and not has_abs:
                try:
                    sw = explore(call_sw)
                except LiftUnsupported as e:
                    ctx.ob(name + ":symmetry", "unencoded", str(e))
                    sw = []
                for i, p in enumerate(paths):
                    for j, q in enumerate(sw):
                        if (p.kind == "ret") == (q.kind == "ret"):
                            continue
                        r, m = ses.check(p.pc + q.pc)
                        if r == "unsat":
                            ctx.ob(f"{name}:symmetry:{i}x{j}", "discharged")
                        elif r == "sat":
                            ctx.violation(f"C08:symmetry:{'complex' if cplx else 'real'}", f"{name}: verdict changes when the operands are swapped", REPLAY.format(case=case(m, "symmetric")))
                        else:
                            ctx.ob(f"{name}:symmetry:{i}x{j}", "inconclusive", "unknown")
    bare_lhs(ctx)
    vectors(ctx)
    foreign(ctx)


REPLAY_LHS = r'''
import sys
import sympy as sp
from sympy.physics import units
from symplyphysics import Quantity, assert_equal
bad = False
for lhs, rhs in ((5, 5), (5 * units.second, 5), (Quantity(5 * units.second), 5), (5, Quantity(5 * units.meter))):
    try:
        assert_equal(lhs, rhs, dimension=units.length); got = "pass"
    except AssertionError: got = "fail"
    except Exception as e: got = "refused:" + type(e).__name__
    print(lhs, rhs, "dimension=length ->", got)
    if got == "pass": bad = True     # the left operand is a bare number / a time: never a length
if bad:
    print("REPRODUCED"); sys.exit(1)
'''


def bare_lhs(ctx):
    """the dimension keyword gives a dimension to a bare-number RIGHT operand only; the left operand keeps its own (lifted, all values)"""
    from symplyphysics.core import approx as AP
    from symplyphysics.core.errors import UnitsError
    for kind in ("number", "expression"):
        ses = Session(ctx)
        name = f"lhs-{kind}:dimension-keyword"
        with ses.active(), rebound(*bindings()):
            l, r = ses.scalar("l"), ses.scalar("r")
            A, K = ses.dim("A"), ses.dim("K")
            zl, zr = ses.z(l), ses.z(r)
            lhs = l if kind == "number" else l * make_quantity(sp.S.One, A)
            Avec = [z3.RealVal(0)] * 8 if kind == "number" else A.vec
            try:
                paths = explore(lambda: AP.assert_equal(lhs, r, dimension=K))
            except LiftUnsupported as e:
                ctx.ob(name, "unencoded", str(e))
                continue
            cov = coverage_ok(paths)
            ctx.ob(name + ":coverage", "discharged" if cov == "covered" else "inconclusive", cov)
            dims_ok = z3.Or(vec_eq(erase_angle(Avec), erase_angle(K.vec)), zl == 0, zr == 0)
            for i, p in enumerate(paths):
                if p.kind != "ret":
                    ctx.ob(f"{name}:path{i}", "discharged", nontrivial=False)
                    continue
                res, m = ses.check(p.pc + [z3.Not(dims_ok)])
                if res == "unsat":
                    ctx.ob(f"{name}:path{i}:pass=>dimensions", "discharged")
                elif res == "sat":
                    ctx.violation("C08:lhs:dimension-override", f"{name}: assertion passes although the left operand's own dimension differs from the right operand's", REPLAY_LHS)
                else:
                    ctx.ob(f"{name}:path{i}", "inconclusive", "unknown")


FOREIGN_SRC = r"""
import sympy as sp
from sympy.physics import units
from sympy.physics.units import Dimension
from symplyphysics import Quantity, assert_equal
from symplyphysics.core.approx import assert_equal_vectors
from symplyphysics.core.vectors.vectors import QuantityVector
def foreign_cases():
    # base dimensions outside the seven SI ones + angle (information; a user-defined one): the lifted 8-exponent vectors cannot represent
    # them, so a finite list is executed concretely on equal magnitudes.  (label, left, right, equivalent?)
    money = Dimension("money")
    from sympy.physics.units.definitions.dimension_definitions import information as info
    L, T = units.length, units.time
    dims = [("1", Dimension(1), {}), ("L", L, {"L": 1}), ("1/T", 1 / T, {"T": -1}), ("info", info, {"i": 1}), ("info*L", info * L, {"i": 1, "L": 1}), ("info/T", info / T, {"i": 1, "T": -1}),
            ("info**2", info**2, {"i": 2}), ("money", money, {"m": 1}), ("money*L", money * L, {"m": 1, "L": 1}), ("money/info", money / info, {"m": 1, "i": -1}), ("info*L/info", info * L / info, {"L": 1})]
    out = []
    for (na, da, ea) in dims:
        for (nb, db, eb) in dims:
            out.append((f"5 [{na}] vs 5 [{nb}]", Quantity(5, dimension=da), Quantity(5, dimension=db), ea == eb))
    return out
def foreign_bad():
    bad = []
    for label, l, r, same in foreign_cases():
        for how in ("scalar", "vector"):
            try:
                if how == "scalar":
                    assert_equal(l, r)
                else:
                    assert_equal_vectors(QuantityVector([l, l], dimension=l.dimension), QuantityVector([r, r], dimension=r.dimension))
                got = True
            except Exception as e:
                got = False
            if got != same:
                bad.append(f"{how} {label}: " + ("accepted although the dimensions are inequivalent" if got else "refused although dimension and magnitude agree"))
    return bad
"""


def foreign(ctx):
    ns = {}
    exec(FOREIGN_SRC, ns)
    bad = ns["foreign_bad"]()
    if bad:
        ctx.violation("C08:foreign-base-dimension", "; ".join(bad[:4]) + f" ({len(bad)} cases)", FOREIGN_SRC + "\nimport sys\nb = foreign_bad()\nprint(b[:6])\nif b:\n    print('REPRODUCED'); sys.exit(1)\n")
    else:
        ctx.ob("equal magnitudes with base dimensions outside the SI seven (information, a user-defined one): accepted exactly for equivalent dimensions, scalars and vectors (121 pairs)", "discharged", nontrivial=False)


REPLAY_VEC = r'''
import sys
from fractions import Fraction
from sympy.physics import units
from symplyphysics import Quantity
from symplyphysics.core.approx import assert_equal_vectors
from symplyphysics.core.vectors.vectors import QuantityVector
nl, nr, lvals, rvals = {nl!r}, {nr!r}, {lvals!r}, {rvals!r}
L = units.length
lf = [float(Fraction(v)) for v in lvals]; rf = [float(Fraction(v)) for v in rvals]
import sympy as sp
def run(exact):
    mk = (lambda v: Quantity(sp.Rational(v) * units.meter)) if exact else (lambda v: Quantity(float(Fraction(v)), dimension=L))
    lv = QuantityVector([mk(v) for v in lvals], dimension=L)
    rv = QuantityVector([mk(v) for v in rvals], dimension=L)
    try:
        assert_equal_vectors(lv, rv); return "pass"
    except AssertionError: return "fail"
    except ValueError as e: return "valueerror"
got = run(False); got_exact = run(True)
# componentwise verdict at the default relative tolerance 0.001, with a margin around the boundary
def comp(a, b):
    d, m = abs(a - b), 1e-3 * max(abs(a), abs(b))
    return True if d <= m * (1 - 1e-6) else False if d > m * (1 + 1e-6) else None
oks = [comp(a, b) for a, b in zip(lf, rf)]
want = "valueerror" if nl != nr else (None if None in oks and False not in oks else "pass" if all(oks) else "fail")
print(lf, rf, oks, "->", got, "(float magnitudes)", got_exact, "(exact magnitudes); want", want)
if want is not None and (got != want or got_exact != want):
    print("REPRODUCED"); sys.exit(1)
'''


def vectors_concrete(ctx):
    """distinguished magnitudes: components that are EXACTLY zero (a structural `== 0` in the code never fires on a symbolic magnitude),
    huge against tiny, equal vectors; verdict by the default relative tolerance 0.001 per component"""
    from symplyphysics.core import approx as AP
    from symplyphysics.core.vectors.vectors import QuantityVector
    from symplyphysics import Quantity as RealQuantity
    from sympy.physics import units
    L = units.length
    cases = [(["0", "0", "5"], ["7", "8", "5"]), (["7", "8", "5"], ["0", "0", "5"]), (["0", "0", "0"], ["1", "2", "3"]), (["1", "2", "3"], ["0", "0", "0"]),
             (["3", "4", "0"], ["3", "4", "1000000"]), (["3", "4", "1000000"], ["3", "4", "0"]), (["0", "0", "5"], ["0", "0", "5"]), (["0", "0", "0"], ["0", "0", "0"]),
             (["0", "2"], ["1/1000000", "2"]), (["1", "2", "3"], ["1", "2", "3"]), (["1", "0"], ["1", "0"]), (["1000", "1"], ["1000", "3/2"]), (["1", "1000"], ["3/2", "1000"])]
    for lvals, rvals in cases:
        lf, rf = [float(Fraction(v)) for v in lvals], [float(Fraction(v)) for v in rvals]
        want = "pass" if all(abs(a - b) <= 1e-3 * max(abs(a), abs(b)) for a, b in zip(lf, rf)) else "fail"
        # magnitudes as doubles and as exact numbers (an exact 0 and a float 0.0 are different objects for SymPy >= 1.13)
        for how, mk in (("float", lambda v: RealQuantity(float(Fraction(v)), dimension=L)), ("exact", lambda v: RealQuantity(sp.Rational(v) * units.meter))):
            try:
                AP.assert_equal_vectors(QuantityVector([mk(v) for v in lvals]), QuantityVector([mk(v) for v in rvals]))
                got = "pass"
            except AssertionError:
                got = "fail"
            except Exception as e:
                got = "raised " + type(e).__name__
            nm = f"vectors-concrete:{how}:{lvals}-vs-{rvals}"
            if got == want:
                ctx.ob(nm, "discharged", nontrivial=False)
            else:
                ctx.violation("C08:vectors:concrete-components", f"assert_equal_vectors({lvals} m, {rvals} m) [{how} magnitudes]: {got}, expected {want} (component-wise, relative tolerance 0.001)",
                              REPLAY_VEC.format(nl=len(lvals), nr=len(rvals), lvals=lvals, rvals=rvals))


def vectors(ctx):
    """(vi) vectors: lengths 0..3 x 0..3, each component pair symbolic"""
    vectors_concrete(ctx)
    from symplyphysics.core import approx as AP
    from symplyphysics.core.vectors.vectors import QuantityVector
    from symplyphysics.core.errors import UnitsError
    from sympy.physics import units
    for nl, nr in itertools.product(range(4), repeat=2):
        ses = Session(ctx)
        name = f"vectors[{nl},{nr}]"
        with ses.active(), rebound(*bindings()):
            ls = [ses.scalar(f"l{i}_") for i in range(nl)]
            rs = [ses.scalar(f"r{i}_") for i in range(nr)]
            lqs = [make_quantity(s, units.length) for s in ls]
            rqs = [make_quantity(s, units.length) for s in rs]

            def body():
                lv = QuantityVector(lqs, dimension=units.length)
                rv = QuantityVector(rqs, dimension=units.length)
                return AP.assert_equal_vectors(lv, rv)
            try:
                paths = explore(body)
            except LiftUnsupported as e:
                ctx.ob(name, "unencoded", str(e))
                continue
            comp_ok, comp_strict = [], []
            for a, b in zip(ls, rs):
                za, zb = ses.z(a), ses.z(b)
                # 0.001 is a binary float: keep a relative margin of 1e-9 around the boundary (outside the claim)
                comp_ok.append(zabs(za - zb) <= qv(RHO0) * (1 + qv(MARGIN)) * zmax(zabs(za), zabs(zb)))
                comp_strict.append(zabs(za - zb) <= qv(RHO0) * (1 - qv(MARGIN)) * zmax(zabs(za), zabs(zb)))
            allok = z3.And(comp_ok) if comp_ok else z3.BoolVal(True)
            allstrict = z3.And(comp_strict) if comp_strict else z3.BoolVal(True)
            for i, p in enumerate(paths):
                if nl != nr:
                    spec_ok = p.kind == "exc" and isinstance(p.value, ValueError) and not isinstance(p.value, UnitsError)
                    # a mismatch may also be detected after some component already failed
                    if p.kind == "exc" and isinstance(p.value, AssertionError):
                        r, m = ses.check(p.pc + [allstrict])
                        spec_ok = r == "unsat"
                    if spec_ok:
                        ctx.ob(f"{name}:path{i}", "discharged", nontrivial=False)
                    else:
                        ctx.violation(f"C08:vectors:length-mismatch", f"{name}: {p.describe()} for vectors of different lengths",
                                      REPLAY_VEC.format(nl=nl, nr=nr, lvals=[str(i + 1) for i in range(nl)], rvals=[str(i + 1) for i in range(nr)]))
                    continue
                want = allok if p.kind == "ret" else z3.Not(allstrict)
                if p.kind == "exc" and not isinstance(p.value, AssertionError):
                    want = z3.BoolVal(False)
                r, m = ses.check(p.pc + [z3.Not(want)])
                if r == "unsat":
                    ctx.ob(f"{name}:path{i}", "discharged")
                elif r == "sat":
                    oks = [bool(z3.is_true(m.eval(c, model_completion=True))) for c in comp_ok]
                    lvals = [str(model_value(m, ses.z(a))) for a in ls]
                    rvals = [str(model_value(m, ses.z(b))) for b in rs]
                    ctx.violation("C08:vectors:componentwise", f"{name}: {p.describe()} but component verdicts are {oks} at {lvals} vs {rvals}",
                                  REPLAY_VEC.format(nl=nl, nr=nr, lvals=lvals, rvals=rvals))
                else:
                    ctx.ob(f"{name}:path{i}", "inconclusive", "unknown")
