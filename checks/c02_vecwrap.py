"""C02 for vector modules: the published law is a Python function `<x>_law(...)` / `<x>_definition(...)` over symbolic vectors,
and `calculate_<x>` wraps it (QuantityVector -> base vector -> law -> QuantityVector, module symbols substituted).

Decided here: for quantity vectors whose component scale factors are verification scalars (dimension = the declared one), the
vector RETURNED by the real, decorated `calculate_<x>` equals, component by component and for all magnitudes, the published law
function applied to the same arguments (module symbols replaced by the arguments the decorator declares for them).
The law function is called on its own, on plain symbolic vectors: nothing of the wrapper's body is reused for the expectation.
"""
from __future__ import annotations

import inspect
from fractions import Fraction

import sympy as sp
import z3

from vlib import catalogue, lift, qspec
from vlib.lift import Session, explore, make_quantity, rebound, LiftUnsupported, VS
from vlib.par import pmap, with_timeout, ItemTimeout
from vlib.s2smt import Unencodable, model_value, qv


def candidates():
    out = []
    for m in catalogue.module_names():
        try:
            mod = catalogue.load(m)
        except Exception:
            continue
        if [1 for n, e in catalogue.public_equations(mod) if isinstance(e, sp.Equality)]:
            continue
        fns = dict(catalogue.public_functions(mod))
        laws = [f for f in fns if f.endswith("_law") or f.endswith("_definition")]
        for f in fns:
            if f.startswith("calculate_") and laws:
                out.append((m, f))
    return out


def _cands(_):
    return candidates()


def law_for(fname, fns):
    stem = fname[len("calculate_"):]
    laws = [f for f in fns if f.endswith("_law") or f.endswith("_definition")]
    for suffix in ("_law", "_definition"):
        if stem + suffix in fns:
            return stem + suffix
    # calculate_torque <-> torque_definition, calculate_x_at_point <-> x_law ...
    close = [l for l in laws if l.rsplit("_", 1)[0] in stem or stem in l]
    if len(close) == 1:
        return close[0]
    if len(laws) == 1:
        return laws[0]
    return None


def check_one(item):
    modname, fname, timeout = item
    from symplyphysics.core.symbols.symbols import DimensionSymbol
    from symplyphysics.core.dimensions.dimensions import AnyDimension
    from symplyphysics.core.vectors.vectors import Vector, QuantityVector
    from sympy.physics.units import Quantity as SymQuantity, Dimension
    from checks import c02
    short = modname.replace("symplyphysics.", "")
    name = f"vector-wrapper:{short}.{fname}"
    out = {"name": name, "mod": modname, "fname": fname, "queries": 0, "solver_s": 0.0}
    mod = catalogue.load(modname)
    fns = dict(catalogue.public_functions(mod))
    lname = law_for(fname, fns)
    if lname is None:
        out.update(verdict="unencoded", why="no law function is named after the calculated quantity")
        return out
    out["law"] = lname
    fn = fns[fname]
    info = catalogue.decorator_info(fn)
    sig = inspect.signature(info["inner"])
    lsig = inspect.signature(fns[lname])
    missing = [p for p in lsig.parameters if p not in sig.parameters]
    if missing:
        out.update(verdict="unencoded", why=f"law function {lname} takes {missing}, which the calculate function does not")
        return out
    ses = Session(None, timeout_ms=timeout)
    ses.clear_sympy_cache = True
    ses.enc.extra_handlers.append(qspec.quantity_handler)
    with ses.active():
        args, plain, sym_sub = {}, {}, {}
        for pn, p in sig.parameters.items():
            spec = info["inputs"].get(pn)
            ann = str(p.annotation)
            if p.kind in (p.VAR_POSITIONAL, p.VAR_KEYWORD) or "Sequence" in ann or "list" in ann.lower() or "Field" in ann or "Callable" in ann:
                out.update(verdict="unencoded", why=f"parameter {pn}: sequence / field argument")
                return out
            d = spec.dimension if isinstance(spec, DimensionSymbol) else spec
            if spec is not None and (not isinstance(d, Dimension) or isinstance(d, AnyDimension)):
                out.update(verdict="unencoded", why=f"parameter {pn}: unsupported declared dimension")
                return out
            if "QuantityVector" in ann:
                if spec is None:
                    out.update(verdict="unencoded", why=f"parameter {pn}: undeclared vector dimension")
                    return out
                comps = [VS(f"a_{pn}{i}") for i in range(3)]
                ses.assume += [ses.z(c) != 0 for c in comps]          # bound: non-zero components (a zero component only adds any-dimension forks)
                args[pn] = (lambda comps=comps, d=d: QuantityVector([make_quantity(c, d.subs("angle", 1)) for c in comps]))       # built inside explore(): the constructor forks
                plain[pn] = Vector(comps)
            elif "Vector" in ann:
                out.update(verdict="unencoded", why=f"parameter {pn}: symbolic (non-quantity) vector argument")
                return out
            else:
                s = VS(f"a_{pn}", positive=True)
                ses.assume.append(ses.z(s) > 0)
                plain[pn] = s
                args[pn] = (lambda s=s: s) if spec is None else (lambda s=s, d=d: make_quantity(s, d.subs("angle", 1)))
                if isinstance(spec, sp.Symbol):
                    sym_sub[spec] = s
        try:
            exp = with_timeout(lambda: fns[lname](**{p: plain[p] for p in lsig.parameters}), 60)
        except Exception as e:
            out.update(verdict="unencoded", why=f"law function raises on symbolic vectors: {type(e).__name__}: {str(e)[:60]}")
            return out
        def extract(res):
            # QuantityVector.components builds Quantity objects on access: read them while the lifted bindings are in force
            if isinstance(res, QuantityVector):
                return [c.scale_factor if isinstance(c, SymQuantity) else c for c in res.components]
            if isinstance(res, SymQuantity):
                return [res.scale_factor]
            if isinstance(res, (sp.Basic, int, float)):
                return [res]
            return res
        with rebound(*c02.bindings(mod)):
            try:
                paths = with_timeout(lambda: explore(lambda: extract(fn(**{k: mk() for k, mk in args.items()})), max_paths=60), 60)
            except ItemTimeout:
                out.update(verdict="unencoded", why="symbolic call did not finish in time")
                return out
            except (LiftUnsupported, Unencodable, RecursionError) as e:
                out.update(verdict="unencoded", why=f"lift: {str(e)[:70]}")
                return out
        rets = [p for p in paths if p.kind == "ret"]
        if not rets:
            why = paths[0].value if paths else "no path"
            out.update(verdict="unencoded", why=f"symbolic call raises on every path: {type(why).__name__}: {str(why)[:60]}")
            return out
        want = list(exp.components) if isinstance(exp, Vector) else [exp]
        want = [c02.nice(sp.sympify(w).subs({q: q.scale_factor for q in sp.sympify(w).atoms(SymQuantity)}).subs(sym_sub, simultaneous=True)) for w in want]
        stray = [s for w in want for s in w.free_symbols if not isinstance(s, VS)]
        if stray:
            out.update(verdict="unencoded", why=f"law function leaves module symbols {sorted(set(map(str, stray)))[:4]} that no argument is declared for")
            return out
        verdicts = []
        for p in rets:
            got = p.value
            if not isinstance(got, list):
                verdicts.append(("unencoded", f"result type {type(got).__name__}"))
                continue
            got = [c02.nice(sp.sympify(g)) for g in got]
            if len(got) != len(want):
                k = max(len(got), len(want))
                got, want2 = got + [sp.S.Zero] * (k - len(got)), want + [sp.S.Zero] * (k - len(want))
            else:
                want2 = want
            if any(s for g in got for s in g.free_symbols if not isinstance(s, VS)):
                verdicts.append(("candidate", "returned vector still depends on unbound symbols", None))
                continue
            try:
                far = []
                for g, w in zip(got, want2):
                    d = ses.z(g) - ses.z(w)
                    az = z3.If(d >= 0, d, -d)
                    mags = []
                    for t in list(sp.Add.make_args(sp.expand(g))) + list(sp.Add.make_args(sp.expand(w))):
                        tz = ses.z(t)
                        mags.append(z3.If(tz >= 0, tz, -tz))
                    far.append(z3.And(az > qv(Fraction(1, 10**9)) * z3.Sum(mags), az > 0))
                r, m = ses.check(p.pc + [z3.Or(far)])
            except (Unencodable, LiftUnsupported) as e:
                verdicts.append(("unencoded", f"comparison: {str(e)[:60]}"))
                continue
            if r == "unsat":
                verdicts.append(("discharged", ""))
            elif r == "sat":
                vals = {str(s): str(model_value(m, ses.z(s))) for g in got + want2 for s in g.free_symbols}
                verdicts.append(("candidate", f"returned {[str(g)[:60] for g in got]} but {lname} gives {[str(w)[:60] for w in want2]}", vals))
            else:
                verdicts.append(("inconclusive", "unknown"))
        out["queries"], out["solver_s"] = ses.queries, ses.solver_s
        kinds = [v[0] for v in verdicts]
        if "candidate" in kinds:
            c = [v for v in verdicts if v[0] == "candidate"][0]
            out.update(verdict="candidate", why=c[1], vals=c[2] or {})
        elif "inconclusive" in kinds:
            out.update(verdict="inconclusive", why="unknown")
        elif "discharged" in kinds:
            out.update(verdict="discharged", why="", sample={"function": name, "law": lname, "components": [str(w)[:70] for w in want]})
        else:
            out.update(verdict="unencoded", why=verdicts[0][1] if verdicts else "nothing judged")
    return out


REPLAY = r'''
import sys, inspect
import sympy as sp
from vlib import catalogue
from symplyphysics import Quantity
from symplyphysics.core.symbols.symbols import DimensionSymbol
from symplyphysics.core.vectors.vectors import Vector, QuantityVector
from sympy.physics.units import Quantity as SymQuantity
modname, fname, lname = {mod!r}, {fname!r}, {law!r}; vals = {vals!r}
mod = catalogue.load(modname); fns = dict(catalogue.public_functions(mod)); fn = fns[fname]
info = catalogue.decorator_info(fn); sig = inspect.signature(info["inner"]); lsig = inspect.signature(fns[lname])
gen = [sp.Rational(3, 2), sp.Rational(-7, 5), sp.Rational(5, 11), sp.Rational(9, 4), sp.Rational(2, 7), sp.Rational(13, 6), sp.Rational(4, 9), sp.Rational(8, 5)]
k = 0
def val(name, positive=False):
    global k
    if name in vals: return sp.Rational(vals[name])
    k += 1
    return abs(gen[k % len(gen)]) if positive else gen[k % len(gen)]
args, plain, sym_sub = {{}}, {{}}, {{}}
for pn, p in sig.parameters.items():
    spec = info["inputs"].get(pn)
    d = spec.dimension if isinstance(spec, DimensionSymbol) else spec
    if "QuantityVector" in str(p.annotation):
        comps = [val(f"a_{{pn}}{{i}}") for i in range(3)]
        args[pn] = QuantityVector([Quantity(c, dimension=d.subs("angle", 1)) for c in comps]); plain[pn] = Vector(comps)
    else:
        s = val(f"a_{{pn}}", positive=True); plain[pn] = s
        args[pn] = float(s) if spec is None else Quantity(s, dimension=d.subs("angle", 1))
        if isinstance(spec, sp.Symbol): sym_sub[spec] = s
res = fn(**args)
got = [c.scale_factor if isinstance(c, SymQuantity) else sp.sympify(c) for c in res.components] if isinstance(res, QuantityVector) else [res.scale_factor if isinstance(res, SymQuantity) else sp.sympify(res)]
exp = fns[lname](**{{p: plain[p] for p in lsig.parameters}})
want = list(exp.components) if isinstance(exp, Vector) else [exp]
want = [sp.sympify(w).subs({{q: q.scale_factor for q in sp.sympify(w).atoms(SymQuantity)}}).subs(sym_sub, simultaneous=True) for w in want]
n = max(len(got), len(want)); got += [sp.S.Zero] * (n - len(got)); want += [sp.S.Zero] * (n - len(want))
print(fname, "returned", [sp.N(g, 15) for g in got]); print(lname, "gives   ", [sp.N(w, 15) for w in want])
if any(sp.sympify(g).free_symbols for g in got) or any(abs(sp.N(g - w, 30)) > 1e-9 * (abs(sp.N(g, 30)) + abs(sp.N(w, 30))) for g, w in zip(got, want)):
    print("REPRODUCED"); sys.exit(1)
'''


def run(ctx, timeout):
    items = pmap(_cands, [0], procs=1)[0]
    res = pmap(check_one, [(m, f, timeout) for m, f in items], chunk=1, hard_s=240 if timeout <= 10000 else None)
    n = 0
    for r in res:
        if "error" in r:
            ctx.harness_errors.append(r["error"][-300:])
            continue
        ctx.add_solver(r["queries"], r["solver_s"])
        v = r["verdict"]
        if v == "discharged":
            n += 1
            ctx.ob(r["name"], "discharged", sample=r.get("sample") if len(ctx.samples) < 16 else None)
        elif v in ("unencoded", "inconclusive"):
            ctx.ob(r["name"], v, r["why"])
        else:
            ctx.violation("C02:" + r["name"], f"{r['name']}: {r['why']}", REPLAY.format(mod=r["mod"], fname=r["fname"], law=r["law"], vals=r.get("vals") or {}))
    ctx.extra["vector_wrappers"] = len(items)
    ctx.extra["vector_wrappers_decided"] = n
