"""C16 - vector-equation rearrangement is equivalence-preserving (engine S, component semantics of vlib/vecsem.py)."""
from __future__ import annotations

import itertools
import random

import sympy as sp
import z3

from vlib.par import pmap, with_timeout, ItemTimeout
from vlib.s2smt import Unencodable, model_value
from vlib.vecsem import VecEnc

LEVEL = "other"
TIMEOUT_MS = 10000
_ENV = None


def env():
    global _ENV
    if _ENV is None:
        from symplyphysics.core.experimental import vectors as V
        vs = {n: V.VectorSymbol(n) for n in "abcd"}
        al, be, th = sp.Symbol("alpha", real=True), sp.Symbol("beta", real=True), sp.Symbol("theta", real=True)
        _ENV = dict(V=V, vs=vs, al=al, be=be, th=th)
    return _ENV


COEFFS = ["1", "-1", "2", "al", "-al", "al*be", "al+be", "al/be", "1/al", "cos(th)", "al*cos(th)", "dot(c,d)", "exp(-al)", "norm(d)", "sqrt(al*be)", "log(al*be)"]
TERMS = ["a", "b", "c", "cross(b,c)", "cross(a,b)", "d"]


def coeff_obj(name):
    E = env()
    V = E["V"]
    loc = {"al": E["al"], "be": E["be"], "th": E["th"], "cos": sp.cos, "exp": sp.exp, "sqrt": sp.sqrt, "log": sp.log,
           "dot": lambda x, y: V.VectorDot(x, y), "norm": lambda x: V.VectorNorm(x), **E["vs"]}
    return sp.sympify(name, locals=loc)


def term_obj(name):
    E = env()
    V = E["V"]
    loc = {"cross": lambda x, y: V.VectorCross(x, y), **E["vs"]}
    return sp.sympify(name, locals=loc) if "cross" in name else E["vs"][name]


def build_side(side):
    tot = sp.S.Zero
    for c, t in side:
        tot = tot + coeff_obj(c) * term_obj(t)
    return tot


def eq_str(lhs, rhs):
    f = lambda side: " + ".join(f"({c})*{t}" for c, t in side) or "0"
    return f"{f(lhs)} = {f(rhs)}"


def check_eq(item):
    from symplyphysics.core.experimental.solvers import solve_for_vector
    lhs_s, rhs_s, unknown, as_eq = item
    E = env()
    name = f"solve_for_vector[{eq_str(lhs_s, rhs_s)}; unknown {unknown}{'' if as_eq else '; expression form'}]"
    out = {"name": name, "item": item, "queries": 0, "solver_s": 0.0}
    import time as _t
    try:
        L, R = build_side(lhs_s), build_side(rhs_s)
        arg = sp.Eq(L, R, evaluate=False) if as_eq else (L - R)
        expr = L - R
        atom = E["vs"][unknown]
        occurs_as_term = any(t == unknown for _, t in lhs_s + rhs_s)
        res = {}
        for rf in (False, True):
            try:
                res[rf] = with_timeout(solve_for_vector, 30, arg, atom, rf)
            except ItemTimeout:
                out.update(verdict="candidate", why="does not terminate within 30 s")
                return out
            except (ValueError, TypeError, ZeroDivisionError) as e:
                res[rf] = e
    except Exception as e:
        out.update(verdict="unencoded", why=f"cannot build: {type(e).__name__}: {e}")
        return out
    # does the unknown survive as a term after SymPy's own simplification of the input? (a - a cancels)
    enc0 = VecEnc()
    try:
        from symplyphysics.core.experimental.vectors import into_terms, split_factor
        terms = [split_factor(t) for t in into_terms(expr)]
        present = any(v is atom or v == atom for v, _ in terms)
    except Exception:
        present = occurs_as_term
    verdicts = []
    for rf in (False, True):
        r = res[rf]
        if isinstance(r, Exception):
            if present:
                verdicts.append(("candidate", f"reduce_factor={rf}: raised {type(r).__name__}: {r} although {unknown} is a term"))
            elif isinstance(r, ValueError):
                verdicts.append(("discharged", None))
            else:
                verdicts.append(("candidate", f"reduce_factor={rf}: request for a vector that is not a term raised {type(r).__name__}, expected ValueError"))
            continue
        if not present:
            verdicts.append(("candidate", f"reduce_factor={rf}: {unknown} is not a term but the request was answered: {r}"))
            continue
        enc = VecEnc()
        try:
            ev = enc.vec(expr)
            n_dom = len(enc.domain)
            dv = enc.vec(r.lhs - r.rhs)
            t0 = _t.time()
            # definedness: wherever the input is defined over the reals (its own roots / logarithms / divisions), the returned equation
            # must be too -- the translator's domain conditions of the RESULT are to be implied by those of the input, not assumed
            extra_dom = enc.domain[n_dom:]
            if extra_dom:
                rd = str(_solve(enc.assume + enc.side + enc.domain[:n_dom] + [z3.Not(z3.And(extra_dom))]))
                out["queries"] += 1
                if rd == "sat" and not rf:
                    verdicts.append(("candidate", f"reduce_factor={rf}: returned {r} is not defined (real) everywhere the input is"))
                    continue
            if rf:
                # scale = coefficient isolated by the routine, read from the reduce_factor=False answer: lhs = atomic * (-scale)
                rfalse = res[False]
                if isinstance(rfalse, Exception):
                    verdicts.append(("inconclusive", "no reference coefficient"))
                    continue
                scale = -sp.expand(rfalse.lhs).coeff(atom)
                sc = enc.tr(scale)
                goal = z3.Or([d * sc != e for d, e in zip(dv, ev)])
                cons = enc.assume + enc.side + enc.domain + [sc != 0, goal]
                rr = str(_solve(cons))
                out["queries"] += 1
                # the left-hand side must be the bare unknown
                if r.lhs != atom:
                    rr = "sat"
            else:
                cons1 = enc.assume + enc.side + enc.domain + [z3.Or([d != -e for d, e in zip(dv, ev)])]
                rr = str(_solve(cons1))
                out["queries"] += 1
                if rr == "sat":
                    cons2 = enc.assume + enc.side + enc.domain + [z3.Or([d != e for d, e in zip(dv, ev)])]
                    rr = str(_solve(cons2))
                    out["queries"] += 1
            out["solver_s"] += _t.time() - t0
            if rr == "unsat":
                verdicts.append(("discharged", None))
            elif rr == "sat":
                verdicts.append(("candidate", f"reduce_factor={rf}: returned {r}, which is not equivalent to the input"))
            else:
                verdicts.append(("inconclusive", "unknown"))
        except Unencodable as e:
            verdicts.append(("unencoded", str(e)))
    kinds = [v[0] for v in verdicts]
    if "candidate" in kinds:
        out.update(verdict="candidate", why="; ".join(v[1] for v in verdicts if v[0] == "candidate"))
    elif "inconclusive" in kinds or "unencoded" in kinds:
        k = "inconclusive" if "inconclusive" in kinds else "unencoded"
        out.update(verdict=k, why="; ".join(str(v[1]) for v in verdicts if v[1]))
    else:
        out.update(verdict="discharged", result=str(res[True])[:160])
    return out


def _solve(cons):
    s = z3.Solver()
    s.set("timeout", TIMEOUT_MS)
    for c in cons:
        s.add(c)
    return s.check()


REPLAY = r'''
import sys, random
import sympy as sp
from checks import c16
from vlib.vecsem import NumVec
from symplyphysics.core.experimental.solvers import solve_for_vector
from symplyphysics.core.experimental.vectors import into_terms, split_factor
lhs_s, rhs_s, unknown, as_eq = {item!r}
E = c16.env()
L, R = c16.build_side(lhs_s), c16.build_side(rhs_s)
arg = sp.Eq(L, R, evaluate=False) if as_eq else (L - R)
expr = L - R; atom = E["vs"][unknown]
present = any(v == atom for v, _ in [split_factor(t) for t in into_terms(expr)])
random.seed(5)
rnd = lambda: sp.Rational(random.randint(-5, 5) or 1, random.randint(1, 3))
vecs = {{id(v): [rnd(), rnd(), rnd()] for v in E["vs"].values()}}
# every sign combination of the scalar coefficients (a rewriting may be right for positive values only)
nvs = [NumVec(vecs, {{"alpha": sa * sp.Rational(7, 3), "beta": sb * sp.Rational(5, 2), "theta": sp.Rational(2, 3)}}) for sa in (1, -1) for sb in (-1, 1)]
bad = False
res = {{}}
for rf in (False, True):
    try: res[rf] = solve_for_vector(arg, atom, rf)
    except Exception as e: res[rf] = e
print("input:", arg, " unknown:", unknown); print("results:", res)
def close(u, v): return all(abs(sp.N(x - y)) < 1e-12 * (1 + abs(sp.N(x)) + abs(sp.N(y))) for x, y in zip(u, v))
for rf in (False, True):
    r = res[rf]
    if isinstance(r, Exception):
        if present or not isinstance(r, ValueError): bad = True
        continue
    if not present: bad = True; continue
    for nv in nvs:
        try:
            ev = nv.vec(expr); dv = nv.vec(r.lhs - r.rhs)
        except Exception as e:
            print("not evaluable at", nv.sa, type(e).__name__); continue
        if any(sp.N(x).has(sp.zoo, sp.nan) for x in list(ev) + list(dv)): continue
        if rf:
            scale = -sp.expand(res[False].lhs).coeff(atom) if not isinstance(res[False], Exception) else None
            if scale is None or r.lhs != atom or not close([d * nv.scal(scale) for d in dv], ev): bad = True; print("differs at", nv.sa)
        else:
            if not (close(dv, [-x for x in ev]) or close(dv, ev)): bad = True; print("differs at", nv.sa)
if bad:
    print("REPRODUCED"); sys.exit(1)
'''


# ---- scalar solving and apply ------------------------------------------
def scalar_cases():
    E = env()
    V = E["V"]
    x = sp.Symbol("x", real=True)
    a, b, c = sp.symbols("qa qb qc", real=True)
    va, vb = E["vs"]["a"], E["vs"]["b"]
    return x, [
        ("linear", sp.Eq(a * x + b, c), [a != 0]),
        ("linear-expr", a * x - b, [a != 0]),
        ("quadratic", sp.Eq(a * x**2 + b * x + c, 0), [a != 0, sp.Ge(b**2 - 4 * a * c, 0)]),
        ("dot-linear", sp.Eq(V.VectorDot(va, vb) * x, c + x), [sp.Ne(V.VectorDot(va, vb) - 1, 0)]),
        ("norm-quadratic", sp.Eq(x**2, V.VectorNorm(va)**2 + 1), []),
        ("rational", sp.Eq(a / x, b), [b != 0, a != 0]),
        # equations for which SymPy's solver produces candidate roots that do NOT satisfy the equation and discards them by checking
        ("radical", sp.Eq(sp.sqrt(x), x - 2), []),
        ("radical-expr", sp.sqrt(2 * x + 3) - x, []),
        ("rational-pole", sp.Eq((x**2 - 3 * x + 2) / (x - 1), 0), []),
    ]


def check_scalar(ctx):
    from symplyphysics.core.experimental.solvers import solve_for_scalar, apply
    x, cases = scalar_cases()
    for name, f, dom in cases:
        try:
            sols = solve_for_scalar(f, x)
        except Exception as e:
            # the statement is about returned solutions; SymPy finding none (IndexError) is a refusal, not a wrong answer
            ctx.ob(f"solve_for_scalar:{name}", "inconclusive", f"no solution returned ({type(e).__name__})")
            continue
        expr = (f.lhs - f.rhs) if isinstance(f, sp.Eq) else f
        ok = isinstance(sols, (list, tuple)) and bool(sols)
        worst = "unsat"
        for eq in (sols if ok else []):
            if not isinstance(eq, sp.Eq) or eq.lhs != x:
                ok = False
                continue
            enc = VecEnc()
            try:
                val = expr.subs(x, eq.rhs)
                if val.has(sp.nan, sp.zoo, sp.oo, -sp.oo):
                    worst = "sat"          # the returned value is a pole of the equation, not a solution
                    continue
                resid = enc.tr(val)
                d = []
                for cnd in dom:
                    d.append(enc.cond(cnd) if isinstance(cnd, sp.Basic) else cnd)
                r = str(_solve(enc.assume + enc.side + enc.domain + d + [resid != 0]))
                ctx.add_solver(1, 0.0)
            except Unencodable as e:
                r = "unencoded"
            worst = r if r != "unsat" else worst
        if not ok or worst == "sat":
            ctx.violation(f"C16:solve_for_scalar:{name}", f"solve_for_scalar({f}, x) = {sols}: not a list of Eq(x, solution) satisfying the equation", REPLAY_SCALAR.format(name=name))
        elif worst == "unsat":
            ctx.ob(f"solve_for_scalar:{name}", "discharged", sample={"equation": str(f), "solutions": [str(s) for s in sols]})
        else:
            ctx.ob(f"solve_for_scalar:{name}", "inconclusive" if worst == "unknown" else "unencoded", worst)
    check_nonvector(ctx)
    nb = nonatomic_bad()
    if nb:
        ctx.violation("C16:solve_for_vector:non-atomic unknown", "; ".join(nb[:3]) + f" ({len(nb)} cases)",
                      "import sys\nfrom checks import c16\nb = c16.nonatomic_bad()\nprint(b)\nif b:\n    print('REPRODUCED'); sys.exit(1)\n")
    else:
        ctx.ob("solve_for_vector: a non-atomic 'unknown' (-a, 2 a, x a, a/2, a + c) is refused or answered by an equation that follows from the original (40 requests, concrete)", "discharged", nontrivial=False)
    try:
        cb = complex_coeff_bad()
    except Exception as e:
        cb = None
        ctx.ob("solve_for_vector:complex unit-modulus coefficients", "unencoded", f"{type(e).__name__}: {e}")
    if cb:
        ctx.violation("C16:solve_for_vector:complex-coefficient", "; ".join(cb[:3]) + f" ({len(cb)} cases)",
                      "import sys\nfrom checks import c16\nb = c16.complex_coeff_bad()\nprint(b)\nif b:\n    print('REPRODUCED'); sys.exit(1)\n")
    elif cb is not None:
        ctx.ob("solve_for_vector:complex unit-modulus coefficients (I, -I, exp(I th)): concrete substitution at three assignments", "discharged", nontrivial=False)
    # apply: F uninterpreted -> congruence
    F = sp.Function("F")
    E = env()
    a, b = E["vs"]["a"], E["vs"]["b"]
    al = E["al"]
    for name, eqn in apply_cases():
        try:
            r = apply(eqn, lambda e: F(e))
            want_l, want_r = (F(eqn.lhs), F(eqn.rhs)) if isinstance(eqn, sp.Eq) else (F(eqn), F(sp.S.Zero))
            ok = isinstance(r, sp.Eq) and r.lhs == want_l and r.rhs == want_r
        except Exception as e:
            ok = False
            r = e
        if ok:
            ctx.ob(f"apply:{name}", "discharged", nontrivial=False)
        else:
            ctx.violation(f"C16:apply:{name}", f"apply({eqn}, F) = {r}", REPLAY_SCALAR.format(name="apply:" + name))


def apply_cases():
    """equations / expressions handed to apply(); sides with a leading minus sign, numeric and symbolic coefficients, sums on either side"""
    E = env()
    a, b, c = E["vs"]["a"], E["vs"]["b"], E["vs"]["c"]
    al, be = E["al"], E["be"]
    ev = lambda l, r: sp.Eq(l, r, evaluate=False)
    return [("equation", ev(al * a, b)), ("expression", al * a - b), ("scalar-equation", sp.Eq(al, 2 * be)),
            ("minus-lhs", ev(-2 * a, b)), ("minus-both", ev(-a, -b)), ("minus-lhs-sum", ev(-al * a + b, c)), ("minus-rhs", ev(a, -b - c)),
            ("minus-expression", -a + be * b), ("minus-scalar-equation", sp.Eq(-al, be)), ("minus-scalar-sum", sp.Eq(-al - 1, be - 2))]


def complex_coeff_bad():
    """coefficients of unit modulus that are not +-1 (I, -I, exp(I th)): the real-valued encoder cannot hold them, so the returned
    equation is substituted back and evaluated at three assignments (concrete, stated as such)"""
    import random
    from vlib.vecsem import NumVec
    from symplyphysics.core.experimental.solvers import solve_for_vector
    E = env()
    a, b, c = E["vs"]["a"], E["vs"]["b"], E["vs"]["c"]
    th, al = E["th"], E["al"]
    bad = []
    rng_ = random.Random(3)
    rnd = lambda: sp.Rational(rng_.randint(-5, 5) or 1, rng_.randint(1, 3))
    nvs = [NumVec({id(v): [rnd(), rnd(), rnd()] for v in E["vs"].values()}, {"alpha": rnd(), "beta": rnd(), "theta": rnd()}) for _ in range(3)]
    for label, expr in (("I*a + b", sp.I * a + b), ("-I*a + al*b + c", -sp.I * a + al * b + c), ("exp(I*th)*a + b", sp.exp(sp.I * th) * a + b)):
        for rf in (False, True):
            try:
                r = solve_for_vector(expr, a, rf)
            except Exception as e:
                bad.append(f"{label} (reduce_factor={rf}): raised {type(e).__name__}: {e}")
                continue
            for nv in nvs:
                zero = lambda vec_: all(abs(sp.N(sp.simplify(x_))) < 1e-12 for x_ in vec_)
                if rf:
                    resid = nv.vec(sp.expand(expr.subs(a, r.rhs))) if r.lhs == a else None
                    ok = resid is not None and zero(resid)
                else:
                    d_, e_ = nv.vec(sp.expand(r.lhs - r.rhs)), nv.vec(sp.expand(expr))
                    ok = zero([x_ + y_ for x_, y_ in zip(d_, e_)]) or zero([x_ - y_ for x_, y_ in zip(d_, e_)])
                if not ok:
                    bad.append(f"{label} (reduce_factor={rf}): returned {r}, not equivalent to the input")
                    break
    return bad


def nonvector_cases():
    """expressions that are NOT vector expressions (division by a vector, powers of vectors, scalar + vector, functions of vectors):
    a request to rearrange them must be refused"""
    E = env()
    V = E["V"]
    a, b, c = E["vs"]["a"], E["vs"]["b"], E["vs"]["c"]
    x, y = sp.symbols("qx qy", real=True)
    return c, [("b/a", b / a), ("b/(2 a)", b / (2 * a)), ("b/(a + c)", b / (a + c)), ("b/(x a + y c)", b / (x * a + y * c)),
               ("b/cross(a, c)", b / V.VectorCross(a, c)), ("b/cross(a, c)^2", b / V.VectorCross(a, c)**2), ("b/a^2", b / a**2), ("a^2", a**2), ("a^x", a**x),
               # a power of a vector as a FACTOR of a term, whatever the sign or kind of its exponent
               ("a^2 b", a**2 * b), ("a^x b", a**x * b), ("x a^2 b", x * a**2 * b), ("cross(a, b)^2 b", V.VectorCross(a, b)**2 * b), ("a^(1/2) b", sp.sqrt(a) * b),
               ("(a + b)^2 b", (a + b)**2 * b), ("b a^(-x)", b * a**(-x)), ("a b", a * b), ("a b / norm(a)", a * b / V.VectorNorm(a)),
               ("scalar x", x), ("dot(a, b)", V.VectorDot(a, b)), ("norm(a)", V.VectorNorm(a)), ("sin(a)", sp.sin(a)),
               # legitimate scalar denominators, for contrast: must be ACCEPTED
               ("b/norm(a) [vector]", b / V.VectorNorm(a)), ("b/dot(a, c) [vector]", b / V.VectorDot(a, c))]


REPLAY_NONVECTOR = r'''
import sys
import sympy as sp
from checks import c16
from symplyphysics.core.experimental.solvers import solve_for_vector
unknown, cases = c16.nonvector_cases()
bad = False
for nm, ex in cases:
    legit = nm.endswith("[vector]")
    for form in (ex + unknown, sp.Eq(ex, unknown, evaluate=False)):
        try:
            r = solve_for_vector(form, unknown); got = f"answered {r}"; refused = False
        except (TypeError, ValueError) as e:
            got = f"refused ({type(e).__name__})"; refused = True
        if refused == legit: bad = True; print(nm, "->", got, " EXPECTED", "an answer" if legit else "a refusal")
if bad:
    print("REPRODUCED"); sys.exit(1)
'''


def check_nonvector(ctx):
    from symplyphysics.core.experimental.solvers import solve_for_vector
    unknown, cases = nonvector_cases()
    for nm, ex in cases:
        legit = nm.endswith("[vector]")
        for fn, form in (("expression", ex + unknown), ("equation", sp.Eq(ex, unknown, evaluate=False))):
            try:
                r = solve_for_vector(form, unknown)
                refused = False
                got = f"answered {r}"
            except (TypeError, ValueError) as e:
                refused = True
                got = f"refused ({type(e).__name__})"
            except Exception as e:
                refused = None
                got = f"raised {type(e).__name__}: {e}"
            name = f"non-vector expression is refused:{nm}:{fn}"
            if refused is not None and refused != legit:
                ctx.ob(name, "discharged", nontrivial=False)
            else:
                ctx.violation(f"C16:nonvector:{nm}", f"solve_for_vector on {nm} + c ({fn} form): {got}; " + ("this IS a vector expression" if legit else "not a vector expression: must be refused"), REPLAY_NONVECTOR)


def nonatomic_bad():
    """a request whose "unknown" is not an atomic vector (-a, 2 a, x a, a/2, -cross(c, a)): refused, or -- if the library answers -- the returned
    equation must at least FOLLOW from the original one (checked at assignments that satisfy the original; concrete rationals)"""
    from symplyphysics.core.experimental.solvers import solve_for_vector
    from vlib.vecsem import NumVec
    E = env()
    V = E["V"]
    a, b, c = E["vs"]["a"], E["vs"]["b"], E["vs"]["c"]
    x = sp.Symbol("qx", real=True)
    A3, C3 = [sp.Rational(3, 2), sp.Rational(-2, 3), sp.Rational(5, 7)], [sp.Rational(1, 4), sp.Rational(2), sp.Rational(-3, 5)]
    xv = sp.Rational(-5, 3)
    # (label, expression = 0, requested "unknown", value of b that makes the expression vanish given a, c, x)
    cases = [("2a - b", 2 * a - b, lambda: [2 * t for t in A3]), ("x a - b + c", x * a - b + c, lambda: [xv * t + u for t, u in zip(A3, C3)]),
             ("-a + b", -a + b, lambda: list(A3)), ("a/2 + b", a / 2 + b, lambda: [-t / 2 for t in A3])]
    bad = []
    for label, expr, bval in cases:
        for ulabel, unknown in (("-a", -a), ("2 a", 2 * a), ("x a", x * a), ("a/2", a / 2), ("a + c", a + c)):
            for rf in (False, True):
                try:
                    r = solve_for_vector(expr, unknown, rf)
                except (ValueError, TypeError):
                    continue
                except Exception as ex:
                    bad.append(f"{label} for {ulabel}: raised {type(ex).__name__}")
                    continue
                nv = NumVec({id(a): A3, id(b): bval(), id(c): C3}, {"qx": xv})
                try:
                    resid = nv.vec(r.lhs - r.rhs)
                    orig = nv.vec(expr)
                except Exception as ex:
                    bad.append(f"{label} for {ulabel} (reduce_factor={rf}): answered {r}, which cannot be evaluated ({type(ex).__name__})")
                    continue
                assert all(sp.simplify(o) == 0 for o in orig), (label, orig)
                if any(sp.simplify(t) != 0 for t in resid):
                    bad.append(f"{label} = 0 rearranged for {ulabel} (reduce_factor={rf}): answered {r}, which does not hold where the original equation holds")
    return bad


REPLAY_SCALAR = r'''
import sys
import sympy as sp
from checks import c16
from vlib.vecsem import NumVec
from symplyphysics.core.experimental.solvers import solve_for_scalar, apply
name = {name!r}
E = c16.env()
bad = False
if name.startswith("apply:"):
    F = sp.Function("F")
    for _nm, eqn in c16.apply_cases():
        r = apply(eqn, lambda e: F(e))
        wl, wr = (F(eqn.lhs), F(eqn.rhs)) if isinstance(eqn, sp.Eq) else (F(eqn), F(sp.S.Zero))
        if not (isinstance(r, sp.Eq) and r.lhs == wl and r.rhs == wr): bad = True; print(eqn, "->", r)
else:
    x, cases = c16.scalar_cases()
    f = [c for c in cases if c[0] == name][0][1]
    nv = NumVec({{id(v): [sp.Rational(i + 1, 2), sp.Rational(-i - 2, 3), sp.Rational(2 * i + 1, 5)] for i, v in enumerate(E["vs"].values())}}, {{"qa": 2, "qb": -7, "qc": 3}})
    try:
        sols = solve_for_scalar(f, x)
        expr = (f.lhs - f.rhs) if isinstance(f, sp.Eq) else f
        if not isinstance(sols, (list, tuple)) or not sols: bad = True; print("returned", sols); sols = []
        for eq in sols:
            sub = expr.subs(x, eq.rhs) if eq.lhs == x else sp.S.One
            if sub.has(sp.nan, sp.zoo, sp.oo, -sp.oo): print(eq, "is a pole of the equation"); bad = True; continue
            val = nv.scal(sub)
            print(eq, "residual", sp.N(val))
            if abs(sp.N(val)) > 1e-12: bad = True
    except Exception as e:
        print("raised", e); bad = True
if bad:
    print("REPRODUCED"); sys.exit(1)
'''


def run(ctx):
    global TIMEOUT_MS
    thorough = ctx.tier == "thorough"
    TIMEOUT_MS = 60000 if thorough else 10000
    rng = random.Random(ctx.seed)
    items = []
    pairs = [(c, t) for c in COEFFS for t in TERMS]
    # 2-term equations: exhaustive over coefficient forms for the term carrying the unknown 'a'
    for c in COEFFS:
        for c2, t2 in [("1", "b"), ("be", "cross(b,c)"), ("-al", "c")]:
            items.append((((c, "a"), (c2, t2)), (), "a", False))
            items.append((((c, "a"),), ((c2, t2),), "a", True))
    # unknown on the right-hand side, unknown in two terms, unknown missing, unknown only inside a product
    items += [((("al", "b"),), (("be", "a"), ("1", "c")), "a", True), ((("al", "a"), ("be", "a"), ("1", "b")), (), "a", False),
              ((("al", "a"), ("1", "b")), (("be", "a"),), "a", True), ((("al+be", "a"), ("1", "b")), (("cos(th)", "c"),), "a", True),
              ((("1", "b"), ("al", "c")), (), "a", False), ((("1", "cross(a,b)"), ("al", "c")), (), "a", False),
              ((("1", "a"), ("-1", "a"), ("al", "c")), (), "a", False), ((("dot(c,d)", "a"), ("al", "b")), (("norm(d)", "c"),), "a", True)]
    # random 3- and 4-term equations, every atomic term as unknown
    n_rand = 1500 if thorough else 250
    for _ in range(n_rand):
        k = rng.choice([3, 3, 4])
        terms = [rng.choice(pairs) for _ in range(k)]
        cut = rng.randrange(1, k + 1)
        lhs, rhs = tuple(terms[:cut]), tuple(terms[cut:])
        atoms = sorted({t for _, t in terms if t in "abcd"}) or ["a"]
        unk = rng.choice(atoms + (["d"] if rng.random() < 0.1 else []))
        items.append((lhs, rhs, unk, bool(rhs) and rng.random() < 0.8))
    items = list(dict.fromkeys(items))
    ctx.explanation = (
        "Engine S with the R^3 component semantics of vlib/vecsem.py. Programs: vector equations sum k_i T_i = sum k_j T_j with T in "
        "{a, b, c, d, cross(b,c), cross(a,b)} and coefficient forms k in " + str(COEFFS) + " (all coefficient forms on the unknown's term "
        "exhaustively; 3-4 term equations seed-sampled), given as Eq or as expression, every choice of unknown incl. absent ones. The real "
        "solve_for_vector runs with reduce_factor False/True; with E = lhs - rhs of the input z3 decides for ALL real 3-vectors and scalars: "
        "result.lhs - result.rhs == -E (or E) with reduction off; (result.lhs - result.rhs) * c == E with reduction on, where c != 0 is the "
        "coefficient the routine isolated, and result.lhs is the bare unknown. Requests for vectors that are not terms must raise "
        "ValueError. solve_for_scalar: each returned Eq(x, s) satisfies the equation on its domain (z3). apply: congruence under an "
        "uninterpreted F.")
    ctx.functions_encoded = ["solvers.solve_for_vector", "solvers.solve_for_scalar", "solvers.apply", "solvers.vector_equals", "vectors.into_terms", "vectors.split_factor",
                             "vectors.is_vector_expr"]
    ctx.bounds = ["equations of <= 4 terms over 4 vector symbols and 2 cross products; 14 coefficient forms", f"{n_rand} seed-sampled multi-term equations",
                  f"z3 timeout {TIMEOUT_MS} ms"]
    ctx.outside = ["vector functions as unknowns", "coefficients depending on the unknown other than through dot/norm of other vectors"]
    ctx.trusted = ["z3 nlsat", "vlib/vecsem.py", "sympy.solve is part of solve_for_scalar (its output is judged)"]
    res = pmap(check_eq, items)
    groups = {}
    for r in res:
        if "error" in r:
            ctx.harness_errors.append(r["error"][-300:])
            continue
        ctx.add_solver(r["queries"], r["solver_s"])
        if r["verdict"] == "discharged":
            ctx.ob(r["name"], "discharged", sample={"equation": r["name"], "result": r.get("result")} if r.get("result") and len(ctx.samples) < 8 else None)
        elif r["verdict"] in ("unencoded", "inconclusive"):
            ctx.ob(r["name"], r["verdict"], r["why"])
        else:
            lhs_s, rhs_s, unk, as_eq = r["item"]
            coeff_u = sorted({c for c, t in lhs_s + rhs_s if t == unk})
            key = f"C16:solve_for_vector:{'absent' if not coeff_u else 'coeff=' + '|'.join(coeff_u)}"
            groups.setdefault(key, []).append(r)
    ctx.extra["programs"] = len(items)
    for key, lst in sorted(groups.items()):
        lst.sort(key=lambda r: len(r["name"]))
        for r in lst[:3]:
            if ctx.violation(key, f"{r['name']}: {r['why']} ({len(lst)} equations in this class)", REPLAY.format(item=r["item"])):
                break
    check_scalar(ctx)
