"""C07 - unit conversion is exact, invertible and scale-consistent (engine L, QF_FP for the Celsius kernel)."""
from __future__ import annotations

import itertools
from fractions import Fraction

import sympy as sp
import z3

from vlib import lift, qspec
from vlib.lift import (Session, explore, coverage_ok, make_quantity, to_vec, erase_angle, vec_eq, rebound, standard_bindings, LiftUnsupported,
                       lifted_float, factory)
from vlib.par import pmap
from vlib.s2smt import model_value, qv, Unencodable

LEVEL = "other"

SI_PREFIX = {"yotta": 24, "zetta": 21, "exa": 18, "peta": 15, "tera": 12, "giga": 9, "mega": 6, "kilo": 3, "hecto": 2, "deca": 1, "deci": -1,
             "centi": -2, "milli": -3, "micro": -6, "nano": -9, "pico": -12, "femto": -15, "atto": -18, "zepto": -21, "yocto": -24}


def bindings():
    from symplyphysics.core import convert as CV
    from symplyphysics.core.symbols import celsius as CE
    return standard_bindings() + [(CV, "float", lifted_float), (CE, "float", lifted_float)]


REPLAY_CONVERT = r'''
import sys
import sympy as sp
from sympy.physics import units
from symplyphysics import Quantity, dimensionless, convert_to
from sympy.physics.units.definitions.dimension_definitions import angle as angle_type
BASE = [units.mass, units.length, units.time, units.current, units.temperature, units.amount_of_substance, units.luminous_intensity, angle_type]
def mkdim(exps):
    d = dimensionless
    for b, e in zip(BASE, exps):
        e = sp.Rational(e)
        if e != 0: d = d * b**e
    return d
v, u, A, B = sp.Rational({v!r}), sp.Rational({u!r}), {A!r}, {B!r}
val = Quantity(v, dimension=mkdim(A)); unit = Quantity(u, dimension=mkdim(B))
same = [sp.Rational(x) for x in A[:7]] == [sp.Rational(x) for x in B[:7]]
try:
    n = convert_to(val, unit); got = "value"
except Exception as e:
    got = "refused"; n = None
print("convert_to(", v, A, "->", u, B, ") =", n if n is not None else got)
bad = False
if same or v == 0:
    if got != "value" or sp.simplify(n * u - v) != 0: bad = True
else:
    if got == "value": bad = True
if bad:
    print("REPRODUCED"); sys.exit(1)
'''


def part_convert(ctx):
    from symplyphysics.core import convert as CV
    from symplyphysics.core.errors import UnitsError
    for vk in ("qty", "expr"):
        ses = Session(ctx)
        name = f"convert_to:{vk}"
        with ses.active(), rebound(*bindings()):
            v, u = ses.scalar("v"), ses.scalar("u")
            A, B = ses.dim("A"), ses.dim("B")
            zv, zu = ses.z(v), ses.z(u)
            ses.assume.append(zu != 0)
            value = make_quantity(v, A) if vk == "qty" else v * make_quantity(sp.S.One, A)
            unit = make_quantity(u, B)
            try:
                paths = explore(lambda: CV.convert_to(value, unit))
            except LiftUnsupported as e:
                ctx.ob(name, "unencoded", str(e))
                continue
            cov = coverage_ok(paths)
            ctx.ob(name + ":coverage", "discharged" if cov == "covered" else "inconclusive", cov, sample={"harness": name, "paths": len(paths)})
            same = vec_eq(erase_angle(A.vec), erase_angle(B.vec))
            for i, p in enumerate(paths):
                if p.kind == "ret":
                    spec = z3.And(z3.Or(same, zv == 0), ses.z(p.value) * zu == zv)
                elif isinstance(p.value, (TypeError, UnitsError)):
                    spec = z3.And(z3.Not(same), zv != 0)
                else:
                    spec = z3.BoolVal(False)
                r, m = ses.check(p.pc + [z3.Not(spec)])
                if r == "unsat":
                    ctx.ob(f"{name}:path{i}:{p.describe()}", "discharged")
                elif r == "sat":
                    mv = lambda t: str(model_value(m, t))
                    ctx.violation(f"C07:convert_to:{p.describe()}", f"convert_to {p.describe()} contradicts n*unit == value / dimension equivalence",
                                  REPLAY_CONVERT.format(v=mv(zv), u=mv(zu), A=[mv(c) for c in A.vec], B=[mv(c) for c in B.vec]))
                else:
                    ctx.ob(f"{name}:path{i}", "inconclusive", "unknown")
    # composition and identity on a common dimension
    ses = Session(ctx)
    with ses.active(), rebound(*bindings()):
        D = ses.dim("D")
        sa, sb, sc = (ses.scalar(n) for n in "abc")
        ses.assume += [ses.z(sb) != 0, ses.z(sc) != 0, ses.z(sa) != 0]
        qa, qb, qc = make_quantity(sa, D), make_quantity(sb, D), make_quantity(sc, D)
        try:
            outs = {}
            for nm, f in (("ab", lambda: CV.convert_to(qa, qb)), ("bc", lambda: CV.convert_to(qb, qc)), ("ac", lambda: CV.convert_to(qa, qc)),
                          ("aa", lambda: CV.convert_to(qa, qa))):
                ps = explore(f)
                if not ps or any(p.kind != "ret" for p in ps):
                    raise LiftUnsupported(f"{nm}: a path does not return")
                outs[nm] = [(p.pc, ses.z(p.value)) for p in ps]
            worst = "unsat"
            for (p1, ab), (p2, bc), (p3, ac) in itertools.product(outs["ab"], outs["bc"], outs["ac"]):
                r, m = ses.check(p1 + p2 + p3 + [ab * bc != ac])
                worst = r if r != "unsat" else worst
            _verdict(ctx, "composition a->b->c == a->c", worst, None, "C07:composition", "conversions do not compose", REPLAY_COMPOSE)
            worst = "unsat"
            for pc, aa in outs["aa"]:
                r, m = ses.check(pc + [aa != 1])
                worst = r if r != "unsat" else worst
            _verdict(ctx, "convert_to(a, a) == 1", worst, None, "C07:identity", "convert_to(a, a) != 1", REPLAY_COMPOSE)
        except LiftUnsupported as e:
            ctx.ob("composition", "unencoded", str(e))
    # dimensionless value against S.One
    ses = Session(ctx)
    with ses.active(), rebound(*bindings()):
        x = ses.scalar("x")
        from symplyphysics import dimensionless
        qx = make_quantity(x, dimensionless)
        for nm, f in (("convert_to(x, 1)", lambda: CV.convert_to(qx, sp.S.One)), ("convert_to_float(x)", lambda: CV.convert_to_float(qx))):
            try:
                ps = explore(f)
                worst = "unsat"
                for p in ps:
                    if p.kind != "ret":
                        worst = "sat"
                        continue
                    val = p.value
                    t = val.t if isinstance(val, lift.SymFloat) else ses.z(val)
                    r, m = ses.check(p.pc + [t != ses.z(x)])
                    worst = r if r != "unsat" else worst
                _verdict(ctx, nm + " == x", worst, None, "C07:dimensionless", nm + " does not return the scale factor", REPLAY_COMPOSE)
            except LiftUnsupported as e:
                ctx.ob(nm, "unencoded", str(e))


REPLAY_COMPOSE = r'''
import sys
import sympy as sp
from sympy.physics import units
from symplyphysics import Quantity, convert_to, dimensionless
from symplyphysics.core.convert import convert_to_float
a, b, c = Quantity(3 * units.kilometer), Quantity(7 * units.centimeter), Quantity(11 * units.inch)
bad = False
if sp.simplify(convert_to(a, b) * convert_to(b, c) - convert_to(a, c)) != 0: bad = True; print("composition fails")
if convert_to(a, a) != 1: bad = True; print("convert_to(a, a) =", convert_to(a, a))
x = Quantity(sp.Rational(5, 4))
if convert_to(x, sp.S.One) != sp.Rational(5, 4) or convert_to_float(x) != 1.25: bad = True; print("dimensionless conversion", convert_to(x, sp.S.One))
if bad:
    print("REPRODUCED"); sys.exit(1)
'''


def _verdict(ctx, name, r, m, key, why, replay):
    if r == "unsat":
        ctx.ob(name, "discharged")
    elif r == "sat":
        ctx.violation(key, why, replay)
    else:
        ctx.ob(name, "inconclusive", "unknown")


# ---- SI unit of a dimension --------------------------------------------
def catalogue_dimensions():
    """finite set: every concrete dimension declared by symplyphysics.symbols.*, the constants, and sympy's named dimensions"""
    import symplyphysics.symbols as SY
    from symplyphysics import quantities as Q
    from symplyphysics.core.symbols.symbols import DimensionSymbol
    from symplyphysics.core.dimensions.dimensions import AnyDimension
    from sympy.physics.units import Dimension
    from sympy.physics import units
    import pkgutil
    import importlib
    dims = {}
    for m in pkgutil.iter_modules(SY.__path__):
        mod = importlib.import_module("symplyphysics.symbols." + m.name)
        for n, o in vars(mod).items():
            d = getattr(o, "dimension", None)
            if isinstance(o, DimensionSymbol) and isinstance(d, Dimension) and not isinstance(d, AnyDimension):
                dims.setdefault(str(d.name), d)
    for n, o in vars(Q).items():
        d = getattr(o, "dimension", None)
        if isinstance(o, DimensionSymbol) and isinstance(d, Dimension):
            dims.setdefault(str(d.name), d)
    for n in ("length", "mass", "time", "current", "temperature", "amount_of_substance", "luminous_intensity", "energy", "force", "power", "pressure",
              "charge", "voltage", "capacitance", "impedance", "conductance", "inductance", "magnetic_density", "magnetic_flux", "frequency",
              "velocity", "acceleration", "momentum", "area", "volume", "action"):
        d = getattr(units, n, None)
        if isinstance(d, Dimension):
            dims.setdefault(str(d.name), d)
    return dims


REPLAY_SIUNIT = r'''
import sys
import sympy as sp
from sympy.physics import units
from symplyphysics import Quantity, convert_to_si
from symplyphysics.core.dimensions import dimension_to_si_unit, collect_quantity_factor_and_dimension
from sympy.physics.units.systems.si import dimsys_SI
from checks import c07
d = c07.catalogue_dimensions()[{name!r}]
unit = dimension_to_si_unit(d)
f, ud = collect_quantity_factor_and_dimension(unit)
deps = dimsys_SI.get_dimensional_dependencies(d)
mexp = next((v for k, v in deps.items() if str(k.name) == "mass"), 0)
print("dimension", d, "SI unit", unit, "scale", f, "dimension of unit", ud)
bad = sp.simplify(f - sp.Integer(1000)**mexp) != 0 or not dimsys_SI.equivalent_dims(ud, d.subs("angle", 1))
v = sp.Rational(7, 3)
try:          # valid conversions only: an exception out of them is a refusal of a convertible quantity
    si = convert_to_si(Quantity(v * unit))
    if sp.simplify(si - v) != 0: bad = True; print("convert_to_si(7/3 SI units) =", si)
    for cv in (1, -1, 2, 1000, sp.Rational(1, 1000), 1000000, sp.Float(1.0)):
        got = convert_to_si(Quantity(cv, dimension=d.subs("angle", 1)))
        if abs(sp.N(got * sp.Integer(1000)**mexp - cv)) > 1e-12 * abs(sp.N(cv)): bad = True; print("convert_to_si of the internal magnitude", cv, "=", got, "expected", cv / sp.Integer(1000)**mexp)
except Exception as e:
    bad = True; print("a quantity of dimension", d, "is refused by convert_to_si:", type(e).__name__, str(e)[:200])
if bad:
    print("REPRODUCED"); sys.exit(1)
'''


def part_si_unit(ctx):
    from symplyphysics.core.dimensions import dimension_to_si_unit, collect_quantity_factor_and_dimension
    from symplyphysics.core import convert as CV
    from sympy.physics.units.systems.si import dimsys_SI
    dims = catalogue_dimensions()
    ctx.extra["catalogue_dimensions"] = len(dims)
    for name, d in sorted(dims.items()):
        try:
            unit = dimension_to_si_unit(d)
            f, ud = collect_quantity_factor_and_dimension(unit)
            deps = dimsys_SI.get_dimensional_dependencies(d)
            mexp = sp.nsimplify(next((v for k, v in deps.items() if str(k.name) == "mass"), 0))
            ok = sp.simplify(f - sp.Integer(1000)**mexp) == 0 and dimsys_SI.equivalent_dims(ud, d.subs("angle", 1))
        except Exception as e:
            ok = False
            f = f"{type(e).__name__}: {e}"
        if not ok:
            ctx.violation(f"C07:si_unit:{name}", f"dimension_to_si_unit({name}) = {unit if 'unit' in dir() else '?'} has scale {f}", REPLAY_SIUNIT.format(name=name))
            continue
        # convert_to_si(VQ(v, d)) == v / 1000^mexp for ALL v (lifted)
        ses = Session(ctx)
        with ses.active(), rebound(*bindings()):
            v = ses.scalar("v")
            q = make_quantity(v, d)
            try:
                ps = explore(lambda: CV.convert_to_si(q))
                bad = None
                for p in ps:
                    if p.kind != "ret":
                        r, m = ses.check(p.pc)
                        if r == "sat":
                            bad = "refused"
                        continue
                    r, m = ses.check(p.pc + [ses.z(p.value) * ses.z(sp.Integer(1000)**mexp) != ses.z(v)])
                    if r == "sat":
                        bad = "wrong value"
                    elif r != "unsat":
                        bad = bad or "unknown"
                if bad is None:
                    # distinguished magnitudes that code can single out with a structural == (1, -1, 1000, 1/1000 ...): concrete runs
                    from symplyphysics import Quantity as RealQuantity
                    for cv in (1, -1, 2, 1000, sp.Rational(1, 1000), 1000000, sp.Float(1.0)):
                        try:
                            got = CV.convert_to_si(RealQuantity(cv, dimension=d.subs("angle", 1)))
                            if abs(sp.N(got * sp.Integer(1000)**mexp - cv)) > 1e-12 * abs(sp.N(cv)):
                                bad = f"wrong value for the magnitude {cv}: {got}"
                        except Exception as e:
                            bad = f"magnitude {cv} raises {type(e).__name__}"
                if bad is None:
                    ctx.ob(f"si:{name}", "discharged", sample={"dimension": name, "si_unit": str(unit), "mass_exponent": str(mexp)} if len(ctx.samples) < 10 else None)
                elif bad == "unknown":
                    ctx.ob(f"si:{name}", "inconclusive", "unknown")
                else:
                    ctx.violation(f"C07:convert_to_si:{name}", f"convert_to_si of a quantity of dimension {name}: {bad}", REPLAY_SIUNIT.format(name=name))
            except (LiftUnsupported, Unencodable) as e:
                ctx.ob(f"si:{name}", "unencoded", str(e))


# ---- evaluate_expression ------------------------------------------------
EV_DIMS = ["mass", "length", "time", "energy", "force", "dimensionless"]


def ev_items(tier):
    from checks import c05
    rs = [r for r in c05.recipes(3, 2 if tier == "thorough" else 1)]
    out = []
    for r in rs:
        for flag in (False, True):
            out.append((r, flag))
    return out


def check_eval(item):
    from checks import c05
    from symplyphysics.core import convert as CV
    from sympy.physics import units
    from symplyphysics import dimensionless
    from sympy.physics.units.systems.si import dimsys_SI
    r, flag = item
    name = f"evaluate_expression({c05.rstr(r)}, evaluate={flag})"
    out = {"name": name, "recipe": r, "flag": flag, "queries": 0, "solver_s": 0.0}
    ses = Session(None)
    ses.enc.extra_handlers.append(qspec.quantity_handler)
    with ses.active(), rebound(*bindings()):
        dims = [units.mass * units.length**2 / units.time**2, units.length, units.mass]
        qs = [make_quantity(ses.scalar(f"s{i}_"), d) for i, d in enumerate(dims)]
        env = {"q": qs, "n": ses.scalar("n"), "sym": sp.Symbol("x")}
        try:
            expr = c05.build(r, env)
        except (ValueError, TypeError) as e:
            out.update(verdict="unencoded", why="SymPy does not build this tree")
            return out
        try:
            atoms = list(expr.atoms(sp.physics.units.Quantity))     # Abs(q) is turned into a new Quantity by the library at build time
            mex = [sp.nsimplify(next((v for k, v in dimsys_SI.get_dimensional_dependencies(q.dimension).items() if str(k.name) == "mass"), 0)) for q in atoms]
            want = expr.xreplace({q: q.scale_factor / sp.Integer(1000)**m for q, m in zip(atoms, mex)})
            ps = explore(lambda: CV.evaluate_expression(expr, flag))
            verdict = "discharged"
            for p in ps:
                if p.kind != "ret":
                    rr, m = ses.check(p.pc)
                    if rr == "sat":
                        verdict = "candidate"
                        out["why"] = f"raised {type(p.value).__name__}: {p.value}"
                    continue
                if sp.sympify(p.value).atoms(sp.physics.units.Quantity):
                    verdict = "candidate"
                    out["why"] = "result still contains quantities"
                    continue
                if flag:
                    # evalf introduces Floats (1.0*s, s**0.5): read them back as exact rationals, compare to numerical precision
                    lt, rt = ses.z(sp.nsimplify(p.value, rational=True)), ses.z(want)
                    d = lt - rt
                    ad = z3.If(d >= 0, d, -d)
                    ar = z3.If(rt >= 0, rt, -rt)
                    cons = [ad > qv(Fraction(1, 10**9)) * (ar + 1)]
                else:
                    cons = [ses.z(p.value) != ses.z(want)]
                rr, m = ses.check(p.pc + cons)
                if rr == "sat":
                    verdict = "candidate"
                    out["why"] = f"value differs: got {p.value}, SI value of the input is {want}"
                elif rr != "unsat" and verdict == "discharged":
                    verdict = "inconclusive"
                    out["why"] = "unknown"
            out["verdict"] = verdict
        except (LiftUnsupported, Unencodable) as e:
            out.update(verdict="unencoded", why=f"{type(e).__name__}: {e}")
        except (TypeError, ValueError, AttributeError) as e:
            out.update(verdict="unencoded", why=f"SymPy: {type(e).__name__}: {str(e)[:60]}")
        out["queries"], out["solver_s"] = ses.queries, ses.solver_s
    return out


REPLAY_EVAL = r'''
import sys
import sympy as sp
from sympy.physics import units
from symplyphysics import Quantity
from symplyphysics.core.convert import evaluate_expression
from checks import c05
recipe = {recipe!r}; flag = {flag!r}
from sympy.physics.units.systems.si import dimsys_SI
qs = [Quantity(sp.Rational(3, 2) * units.joule), Quantity(sp.Rational(5, 7) * units.meter), Quantity(sp.Rational(11, 4) * units.kilogram)]
env = {{"q": qs, "n": sp.Rational(9, 5), "sym": sp.Symbol("x")}}
expr = c05.build(recipe, env)
def si_value(q):
    mexp = next((v for k, v in dimsys_SI.get_dimensional_dependencies(q.dimension).items() if str(k.name) == "mass"), 0)
    return q.scale_factor / sp.Integer(1000)**mexp
want = expr.xreplace({{q: si_value(q) for q in expr.atoms(sp.physics.units.Quantity)}})
try:
    got = evaluate_expression(expr, flag)
except Exception as e:
    print("REPRODUCED: raised", type(e).__name__, e); sys.exit(1)
print("expr", expr, "->", got, "want", want)
if abs(sp.N(got - want)) > 1e-9 * (1 + abs(sp.N(want))):
    print("REPRODUCED"); sys.exit(1)
'''


def part_eval(ctx):
    items = ev_items(ctx.tier)
    res = pmap(check_eval, items)
    cands = {}
    for r in res:
        if "error" in r:
            ctx.harness_errors.append(r["error"][-300:])
            continue
        ctx.add_solver(r["queries"], r["solver_s"])
        if r["verdict"] == "discharged":
            ctx.ob(r["name"], "discharged")
        elif r["verdict"] in ("unencoded", "inconclusive"):
            ctx.ob(r["name"], r["verdict"], r.get("why"))
        else:
            cands.setdefault((r["flag"], r["recipe"][0]), []).append(r)
    for (flag, op), lst in sorted(cands.items(), key=str):
        lst.sort(key=lambda r: len(r["name"]))
        for r in lst[:3]:
            if ctx.violation(f"C07:evaluate_expression:evaluate={flag}:{op}", f"{r['name']}: {r['why']} ({len(lst)} trees)", REPLAY_EVAL.format(recipe=r["recipe"], flag=flag)):
                break


# ---- prefixes and Celsius ----------------------------------------------
REPLAY_PREFIX = r'''
import sys
from fractions import Fraction
from symplyphysics.core.symbols.prefixes import prefixes
name, exp = {name!r}, {exp!r}
v = getattr(prefixes, name)
print(name, v, "reference 10**%d" % exp)
if abs(Fraction(v) - Fraction(10)**exp) > Fraction(10)**exp / 10**12:
    print("REPRODUCED"); sys.exit(1)
'''

REPLAY_CELSIUS = r'''
import sys
from symplyphysics.core.symbols.celsius import Celsius, to_kelvin, from_kelvin, to_kelvin_quantity, from_kelvin_quantity
from symplyphysics import convert_to_si
bad = False
for x in (-273.15, -40.0, 0.0, 36.6, 1e6, {x!r}):
    k = to_kelvin(Celsius(x))
    if abs(k - (x + 273.15)) > 1e-9 * (abs(x) + 273.15): bad = True; print("to_kelvin", x, k)
    if abs(from_kelvin(k).value - x) > 1e-9 * (abs(x) + 273.15): bad = True; print("round trip", x, from_kelvin(k).value)
    if abs(to_kelvin(from_kelvin(x)) - x) > 1e-9 * (abs(x) + 273.15): bad = True; print("round trip K", x)
    q = to_kelvin_quantity(Celsius(x))
    if abs(float(convert_to_si(q)) - (x + 273.15)) > 1e-9 * (abs(x) + 273.15): bad = True; print("to_kelvin_quantity", x, q.scale_factor)
    if abs(from_kelvin_quantity(q).value - x) > 1e-9 * (abs(x) + 273.15): bad = True; print("from_kelvin_quantity", x)
# one Celsius object, swept through several values
c = Celsius(10.0)
for x in (10.0, 25.0, -40.0, {x!r}):
    c.value = x
    if abs(float(convert_to_si(to_kelvin_quantity(c))) - (x + 273.15)) > 1e-9 * (abs(x) + 273.15): bad = True; print("reused object: to_kelvin_quantity", x, to_kelvin_quantity(c).scale_factor)
    if abs(to_kelvin(c) - (x + 273.15)) > 1e-9 * (abs(x) + 273.15): bad = True; print("reused object: to_kelvin", x)
    if abs(from_kelvin_quantity(to_kelvin_quantity(c)).value - x) > 1e-9 * (abs(x) + 273.15): bad = True; print("reused object: round trip", x)
if bad:
    print("REPRODUCED"); sys.exit(1)
'''


REPLAY_NONTEMP = r'''
import sys
from sympy.physics import units
from symplyphysics import Quantity
from symplyphysics.core.symbols.celsius import from_kelvin_quantity
bad = False
for q in (Quantity(5 * units.meter), Quantity(300 * units.joule), Quantity(300 * units.kelvin / units.second), Quantity(300 * units.kelvin**2)):
    try:
        r = from_kelvin_quantity(q); print(q.dimension, "->", r, "(accepted)"); bad = True
    except Exception as e:
        print(q.dimension, "refused:", type(e).__name__)
if bad:
    print("REPRODUCED"); sys.exit(1)
'''


def part_prefix_celsius(ctx):
    from symplyphysics.core.symbols.prefixes import prefixes
    from symplyphysics.core.symbols import celsius as CE
    from symplyphysics.core import convert as CV
    # prefixes: finite table against the SI definition, exact rationals in z3
    q = z3.Solver()
    for name in prefixes._fields:
        v = Fraction(getattr(prefixes, name))
        if name not in SI_PREFIX:
            ctx.ob(f"prefix:{name}", "inconclusive", "no SI reference")
            continue
        x = z3.Real("p")
        q.push()
        ref = qv(Fraction(10)**SI_PREFIX[name])
        # negative powers of ten are stored as binary doubles: equal within 1e-12 relative
        q.add(x == qv(v), z3.Or(x - ref > ref * qv(Fraction(1, 10**12)), ref - x > ref * qv(Fraction(1, 10**12))))
        r = str(q.check())
        q.pop()
        if r == "unsat":
            ctx.ob(f"prefix:{name}", "discharged", nontrivial=False)
        else:
            ctx.violation(f"C07:prefix:{name}", f"prefix {name} = {v}, SI value 10**{SI_PREFIX[name]}", REPLAY_PREFIX.format(name=name, exp=SI_PREFIX[name]))
    for name in SI_PREFIX:
        if name not in prefixes._fields:
            ctx.ob(f"prefix:{name}", "inconclusive", "prefix missing from the table")
    # Celsius over the reals
    ses = Session(ctx)
    OFF = qv(Fraction(273.15))   # the double nearest to 273.15 (what the code adds); differs from 27315/100 by 2e-14
    eps = qv(Fraction(1, 10**12))
    with ses.active(), rebound(*bindings()):
        x = ses.scalar("x")
        zx = ses.z(x)
        sx = lift.SymFloat(zx, x)
        absz = lambda t: z3.If(t >= 0, t, -t)
        scale = absz(zx) + OFF
        # every path of the three compositions (a changed implementation may branch, e.g. clamp at absolute zero)
        for nm, fnc, want in (("to_kelvin(C(x)) == x + 273.15", lambda: CE.to_kelvin(CE.Celsius(sx)), zx + OFF),
                              ("from_kelvin(to_kelvin(C(x))) == x", lambda: CE.from_kelvin(CE.to_kelvin(CE.Celsius(sx))).value, zx),
                              ("to_kelvin(from_kelvin(x)) == x", lambda: CE.to_kelvin(CE.from_kelvin(sx)), zx)):
            try:
                ps = explore(fnc)
            except (LiftUnsupported, Unencodable) as e:
                ctx.ob("celsius:" + nm, "unencoded", str(e))
                continue
            worst, wm = "unsat", None
            for p_ in ps:
                if p_.kind != "ret":
                    rr, mm = ses.check(p_.pc)
                    if rr == "sat":
                        worst, wm = "sat", mm          # a temperature is refused
                    continue
                t = lift.SymFloat.lift(p_.value)
                rr, mm = ses.check(p_.pc + [absz(t - want) > eps * scale])
                if rr == "sat":
                    worst, wm = "sat", mm
                elif rr != "unsat" and worst != "sat":
                    worst = rr
            xv = float(model_value(wm, zx)) if worst == "sat" else 20.0
            _verdict(ctx, "celsius:" + nm, worst, wm, "C07:celsius:" + nm.split(" ")[0], nm + " fails over the reals", REPLAY_CELSIUS.format(x=xv))
        # quantity forms
        try:
            ps = explore(lambda: CE.to_kelvin_quantity(CE.Celsius(x)))
            okq = len(ps) >= 1 and all(p.kind == "ret" for p in ps)
            bad = None
            for p in ps:
                r, m = ses.check(p.pc + [absz(ses.z(p.value.scale_factor) - (zx + OFF)) > eps * scale])
                if r == "sat":
                    bad = m
                r2, m2 = ses.check(p.pc + [zx + OFF != 0, z3.Not(vec_eq(to_vec(p.value.dimension), to_vec(sp.physics.units.temperature)))])
                if r2 == "sat":
                    bad = m2
            if okq and bad is None:
                ctx.ob("celsius:to_kelvin_quantity", "discharged")
            else:
                ctx.violation("C07:celsius:to_kelvin_quantity", "to_kelvin_quantity(C(x)) is not (x + 273.15) K", REPLAY_CELSIUS.format(x=20.0))
            ps = explore(lambda: CE.from_kelvin_quantity(make_quantity(x, sp.physics.units.temperature)).value)
            bad = None
            for p in ps:
                if p.kind != "ret":
                    bad = "raised"
                    continue
                t = p.value.t if isinstance(p.value, lift.SymFloat) else ses.z(p.value)
                r, m = ses.check(p.pc + [absz(t - (zx - OFF)) > eps * scale])
                if r == "sat":
                    bad = "value"
            if bad is None:
                ctx.ob("celsius:from_kelvin_quantity", "discharged")
            elif bad == "raised":
                ctx.ob("celsius:from_kelvin_quantity", "unencoded", f"lifted run raised {ps[0].value}")
            else:
                ctx.violation("C07:celsius:from_kelvin_quantity", "from_kelvin_quantity(x K) is not x - 273.15", REPLAY_CELSIUS.format(x=20.0))
        except (LiftUnsupported, Unencodable, TypeError, AttributeError) as e:
            ctx.ob("celsius:quantity-forms", "unencoded", f"{type(e).__name__}: {e}")
    # a Celsius object is mutable: after its value is changed, every conversion answers for the NEW value (two symbolic temperatures)
    ses = Session(ctx)
    with ses.active(), rebound(*bindings()):
        try:
            x1, x2 = ses.scalar("x1"), ses.scalar("x2")
            z1, z2 = ses.z(x1), ses.z(x2)

            def reuse():
                c = CE.Celsius(x1)
                first = (CE.to_kelvin_quantity(c), CE.to_kelvin(c))
                c.value = x2
                return CE.to_kelvin_quantity(c), CE.to_kelvin(c), first
            ps = explore(reuse)
            bad = None
            for p in ps:
                if p.kind != "ret":
                    bad = "raised"
                    continue
                qk, fk, _first = p.value
                tq = ses.z(qk.scale_factor)
                tf = fk.t if isinstance(fk, lift.SymFloat) else ses.z(fk)
                r, m = ses.check(p.pc + [z3.Or(absz(tq - (z2 + OFF)) > eps * (absz(z2) + OFF), absz(tf - (z2 + OFF)) > eps * (absz(z2) + OFF))])
                if r == "sat":
                    bad = "value"
                elif r != "unsat" and bad is None:
                    bad = "unknown"
            if bad is None:
                ctx.ob("celsius:conversions of a reused (mutated) Celsius object answer for its current value", "discharged")
            elif bad == "value":
                ctx.violation("C07:celsius:reused-object", "after `c.value = x2`, to_kelvin_quantity(c) / to_kelvin(c) do not answer x2 + 273.15", REPLAY_CELSIUS.format(x=20.0))
            else:
                ctx.ob("celsius:conversions of a reused (mutated) Celsius object", "inconclusive" if bad == "unknown" else "unencoded", bad)
        except (LiftUnsupported, Unencodable, TypeError, AttributeError) as e:
            ctx.ob("celsius:conversions of a reused (mutated) Celsius object", "unencoded", f"{type(e).__name__}: {e}")
    # a quantity that is not a temperature is refused, whatever its magnitude (symbolic magnitude and symbolic dimension != temperature)
    ses = Session(ctx)
    with ses.active(), rebound(*bindings()):
        try:
            v = ses.scalar("v")
            D = ses.dim("Dnt")
            ses.assume.append(z3.Not(vec_eq(lift.erase_angle(D.vec), lift.erase_angle(to_vec(sp.physics.units.temperature)))))
            ses.assume.append(ses.z(v) != 0)
            ps = explore(lambda: CE.from_kelvin_quantity(make_quantity(v, D)))
            acc = [p for p in ps if p.kind == "ret"]
            bad = None
            for p in acc:
                r, m = ses.check(p.pc)
                if r == "sat":
                    bad = [str(model_value(m, c)) for c in D.vec]
            if bad is None:
                ctx.ob("celsius:from_kelvin_quantity refuses non-temperatures", "discharged")
            else:
                ctx.violation("C07:celsius:from_kelvin_quantity:accepts-non-temperature", f"from_kelvin_quantity returns a Celsius value for a quantity of dimension exponents {bad}", REPLAY_NONTEMP)
        except (LiftUnsupported, Unencodable, TypeError, AttributeError) as e:
            ctx.ob("celsius:from_kelvin_quantity refuses non-temperatures", "unencoded", f"{type(e).__name__}: {e}")
    # IEEE double round trip of the three-operation kernel (z3 QF_FP), |x| <= 1e9
    fp_roundtrip(ctx)


def fp_roundtrip(ctx):
    import time
    from symplyphysics.core.symbols.celsius import Celsius
    if ctx.tier != "thorough":
        ctx.ob("celsius:double round trip (QF_FP)", "inconclusive", "bit-precise query runs in the thorough tier only (z3 needs ~3 min); quick tier claims the real-number statement")
        return
    D = z3.Float64()
    rm = z3.RNE()
    x = z3.FP("x", D)
    off = z3.FPVal(Celsius.CELSIUS_TO_KELVIN_OFFSET, D)
    k = z3.fpAdd(rm, x, off)
    back = z3.fpSub(rm, k, off)
    err = z3.fpAbs(z3.fpSub(rm, back, x))
    bound = z3.fpMul(rm, z3.FPVal(2.0**-50, D), z3.fpAdd(rm, z3.fpAbs(x), off))
    s = z3.Solver()
    s.set("timeout", 600000)
    s.add(z3.Not(z3.fpIsNaN(x)), z3.Not(z3.fpIsInf(x)), z3.fpLEQ(z3.fpAbs(x), z3.FPVal(1e9, D)))
    s.add(z3.fpGT(err, bound))
    t0 = time.time()
    r = str(s.check())
    ctx.add_solver(1, time.time() - t0)
    if r == "unsat":
        ctx.ob("celsius:double round trip error <= 2^-50 (|x|+273.15), |x| <= 1e9 (QF_FP)", "discharged")
    elif r == "sat":
        xv = s.model()[x]
        ctx.violation("C07:celsius:fp-roundtrip", f"double round trip error exceeds bound at x={xv}", REPLAY_CELSIUS.format(x=float(eval(str(z3.simplify(z3.fpToReal(xv)).as_fraction())) if False else 20.0)))
    else:
        ctx.ob("celsius:double round trip (QF_FP)", "inconclusive", "z3 FP query did not finish within the time limit; only the real-number statement is claimed")


FOREIGN_SRC = r'''
from sympy.physics import units
from symplyphysics import Quantity, convert_to
def foreign_cases():
    """units whose base dimension lies outside the seven SI ones + angle (information: bit, byte): the lifted exponent vectors cannot
    represent them, so a finite list is executed concretely.  (label, call, expected number or None for a refusal)"""
    return [("2 byte/s -> hertz", lambda: convert_to(Quantity(2 * units.byte / units.second), units.hertz), None),
            ("5 byte -> 1", lambda: convert_to(Quantity(5 * units.byte), 1), None),
            ("7 Hz -> byte/s", lambda: convert_to(Quantity(7 * units.hertz), units.byte / units.second), None),
            ("4 m -> byte", lambda: convert_to(Quantity(4 * units.meter), units.byte), None),
            ("3 byte -> bit", lambda: convert_to(Quantity(3 * units.byte), units.bit), 24),
            ("1 kibibyte -> byte", lambda: convert_to(Quantity(1 * units.kibibyte), units.byte), 1024),
            ("16 bit/s -> byte/s", lambda: convert_to(Quantity(16 * units.bit / units.second), units.byte / units.second), 2)]
def foreign_bad():
    bad = []
    for label, call, want in foreign_cases():
        try:
            got = call()
            if want is None or abs(float(got) - want) > 1e-9 * abs(want):
                bad.append(f"{label}: returned {got}" + (" (inequivalent dimensions: must be refused)" if want is None else f", expected {want}"))
        except Exception as e:
            if want is not None:
                bad.append(f"{label}: refused ({type(e).__name__}), expected {want}")
    return bad
'''


MAGNITUDE_SRC = r"""
import sympy as sp
from sympy.physics import units
from symplyphysics import Quantity, convert_to, convert_to_si
from symplyphysics.core.convert import evaluate_expression, evaluate_quantity, convert_to_float
def magnitude_bad():
    # evaluate_expression / evaluate_quantity / convert_to_float keep the value at extreme magnitudes: nothing is rounded to zero, nothing overflows
    # (exact rational magnitudes from 1e-300 to 1e300; the lifted runs treat evalf as the identity on reals, so its options show only here)
    bad = []
    mags = [sp.Rational(1, 10**e) for e in (300, 120, 34, 20, 17, 16, 15, 12)] + [sp.Integer(10)**e for e in (12, 17, 30, 300)] + [sp.Rational(662607015, 10**42)]
    rel = lambda got, want: abs(sp.N(got, 30) - sp.N(want, 30)) <= sp.Float("1e-12") * abs(sp.N(want, 30))
    for m in mags:
        for sign in (1, -1):
            v = sign * m
            q = Quantity(v * units.meter)
            t = Quantity(3 * units.second)
            for label, call, want in (("evaluate_expression(q, evaluate=True)", lambda: evaluate_expression(q, evaluate=True), v),
                                      ("evaluate_expression(q)", lambda: evaluate_expression(q), v),
                                      ("evaluate_expression(2*q/t, evaluate=True)", lambda: evaluate_expression(2 * q / t, evaluate=True), 2 * v / 3),
                                      ("evaluate_expression(q*1e40, evaluate=True)", lambda: evaluate_expression(q * sp.Integer(10)**40, evaluate=True), v * sp.Integer(10)**40),
                                      ("evaluate_quantity(q*q/t).scale_factor", lambda: evaluate_quantity(q * q / t).scale_factor, v * v / 3),
                                      ("convert_to_si(q)", lambda: convert_to_si(q), v),
                                      ("convert_to(q, km)", lambda: convert_to(q, units.kilometer), v / 1000),
                                      ("convert_to_float(Quantity(v))", lambda: convert_to_float(Quantity(v)), v)):
                try:
                    got = call()
                    if got.free_symbols if hasattr(got, "free_symbols") else False:
                        got = got.subs({s: 1 for s in got.free_symbols})
                    if "float" in label and (abs(float(v)) == 0.0 or abs(float(v)) == float("inf")):
                        continue
                    if not rel(got, want):
                        bad.append(f"{label} with q = {sp.N(v, 6)} m: {sp.N(got, 8)}, expected {sp.N(want, 8)}")
                except Exception as ex:
                    bad.append(f"{label} with q = {sp.N(v, 6)} m: raised {type(ex).__name__}: {ex}")
    # raw SymPy units and prefixed units inside an expression are quantities too: every one of them is replaced by its SI value
    q3 = Quantity(3 * units.meter)
    for label, call, want in (("evaluate_expression(3 m + 5*kilometer)", lambda: evaluate_expression(q3 + 5 * units.kilometer), 5003),
                              ("evaluate_expression(3 m + 5*kilometer, evaluate=True)", lambda: evaluate_expression(q3 + 5 * units.kilometer, evaluate=True), 5003),
                              ("evaluate_expression(90*kilometer/hour)", lambda: evaluate_expression(90 * units.kilometer / units.hour), 25),
                              ("evaluate_expression(3 m / (2*minute))", lambda: evaluate_expression(q3 / (2 * units.minute)), sp.Rational(1, 40)),
                              ("evaluate_expression(speed_of_light*second)", lambda: evaluate_expression(units.speed_of_light * units.second), 299792458),
                              ("evaluate_quantity(3 m * 2*centimeter).scale_factor", lambda: evaluate_quantity(q3 * (2 * units.centimeter)).scale_factor, sp.Rational(6, 100))):
        try:
            got = call()
            if sp.sympify(got).atoms(units.Quantity) or sp.sympify(got).free_symbols:
                bad.append(f"{label}: {got} still contains units")
            elif not rel(got, want):
                bad.append(f"{label}: {sp.N(got, 10)}, expected {want}")
        except Exception as ex:
            bad.append(f"{label}: raised {type(ex).__name__}: {ex}")
    # complex magnitudes are non-zero magnitudes: the dimension gate of a conversion applies to them as to any other
    for zc in (3 + 4 * sp.I, 2 * sp.I, -1 - sp.I):
        qz = Quantity(zc * units.ohm)
        for label, call, want in ((f"convert_to(({zc}) ohm, meter)", lambda: convert_to(qz, units.meter), None), (f"convert_to(({zc}) ohm, 1)", lambda: convert_to(qz, 1), None),
                                  (f"convert_to(({zc}) ohm, second)", lambda: convert_to(qz, units.second), None),
                                  (f"convert_to(({zc}) ohm, milliohm)", lambda: convert_to(qz, units.ohm / 1000), 1000 * zc), (f"convert_to_si(({zc}) ohm)", lambda: convert_to_si(qz), zc)):
            try:
                got = call()
                if want is None:
                    bad.append(f"{label}: returned {got}; inequivalent dimensions must be refused")
                elif abs(sp.N(sp.sympify(got) - want, 20)) > 1e-12 * abs(sp.N(want)):
                    bad.append(f"{label}: {got}, expected {want}")
            except Exception as ex:
                if want is not None:
                    bad.append(f"{label}: raised {type(ex).__name__}, expected {want}")
    return bad
"""


def part_magnitudes(ctx):
    ns = {}
    exec(MAGNITUDE_SRC, ns)
    bad = ns["magnitude_bad"]()
    if bad:
        ctx.violation("C07:extreme-magnitudes", "; ".join(bad[:4]) + f" ({len(bad)} cases)", MAGNITUDE_SRC + "\nimport sys\nb = magnitude_bad()\nprint(b[:8])\nif b:\n    print('REPRODUCED'); sys.exit(1)\n")
    else:
        ctx.ob("evaluate_expression / evaluate_quantity / convert_to / convert_to_si / convert_to_float keep the value for magnitudes 1e-300 .. 1e300 (26 magnitudes x 8 calls), replace raw SymPy units, and gate complex magnitudes by dimension", "discharged", nontrivial=False)


def part_foreign(ctx):
    ns = {}
    exec(FOREIGN_SRC, ns)
    bad = ns["foreign_bad"]()
    if bad:
        ctx.violation("C07:foreign-base-dimension", "; ".join(bad[:4]) + f" ({len(bad)} cases)", FOREIGN_SRC + "\nimport sys\nb = foreign_bad()\nprint(b)\nif b:\n    print('REPRODUCED'); sys.exit(1)\n")
    else:
        ctx.ob("conversions with a base dimension outside the SI seven (information): refused when inequivalent, exact when equivalent", "discharged", nontrivial=False)


def run(ctx):
    ctx.explanation = (
        "Engine L. (1) real convert_to on value (v, A) / unit (u, B) with v, u and both 8-exponent vectors z3 Reals: returns n with n*u == v exactly when "
        "the dimensions are equivalent (angle erased; v == 0 passes the gate), refuses otherwise; composition and identity on a common symbolic "
        "dimension. (2) real dimension_to_si_unit for every concrete dimension declared by the symbol catalogue and constants (finite set): the "
        "unit's (scale, dimension) computed by the real collector must be (1000^mass_exponent, same), then convert_to_si of a quantity with "
        "SYMBOLIC value of that dimension equals value/1000^mass_exponent for all values. (3) real evaluate_expression (evaluate False/True) on "
        "expression trees over quantities with symbolic values of energy/length/mass dimension: result value-equal to the tree with every leaf "
        "replaced by its SI value. (4) prefix table against the SI definition; Celsius helpers over the reals and, for the three-operation "
        "kernel, over IEEE doubles with z3 QF_FP.")
    ctx.functions_encoded = ["convert.convert_to", "convert.convert_to_si", "convert.convert_to_float", "convert.evaluate_expression", "convert.evaluate_quantity",
                             "dimensions.dimension_to_si_unit", "celsius.to_kelvin/from_kelvin/to_kelvin_quantity/from_kelvin_quantity", "prefixes table"]
    ctx.stubs = list(lift.STANDARD_STUBS) + ["float() in core.convert and core.symbols.celsius namespaces -> identity on symbolic reals"]
    ctx.bounds = ["convert_to: all values, all unit scales != 0, all real dimension vectors", "dimension_to_si_unit: the finite set of catalogue dimensions",
                  "evaluate_expression: trees <= 3 leaves, depth <= 1 (quick) / 2 (thorough)", "Celsius FP: |x| <= 1e9, round-to-nearest-even"]
    ctx.outside = ["dimensions that do not occur in the catalogue", "float rounding except in the Celsius kernel", "unit with zero scale factor"]
    ctx.trusted = ["z3 (QF_NRA, QF_FP)", "sympy dimsys_SI", "stubs listed"]
    part_convert(ctx)
    part_si_unit(ctx)
    part_eval(ctx)
    part_prefix_celsius(ctx)
    part_foreign(ctx)
    part_magnitudes(ctx)
