"""C17 - code rendering of formulas is meaning-preserving (engine S + independent reader)."""
from __future__ import annotations

import itertools
import random

import sympy as sp
import z3

from vlib import docsrc, exprparse
from vlib.par import pmap, with_timeout, ItemTimeout
from vlib.s2smt import Enc, Query, Unencodable, model_value

LEVEL = "other"
TIMEOUT_MS = 10000
_SYMS = None


def syms():
    global _SYMS
    if _SYMS is None:
        from symplyphysics import Symbol
        _SYMS = [Symbol("a", positive=True), Symbol("b", positive=True), Symbol("c_1", positive=True)]
    return _SYMS


CONST = {"2": sp.Integer(2), "-1": sp.Integer(-1), "3": sp.Integer(3), "-2": sp.Integer(-2), "1/2": sp.Rational(1, 2), "-1/2": sp.Rational(-1, 2), "3/2": sp.Rational(3, 2),
         "2/3": sp.Rational(2, 3), "-3": sp.Integer(-3), "0.5": sp.Float(0.5), "1": sp.Integer(1), "5": sp.Integer(5), "pi": sp.pi}


def numeric_sum_trees():
    """canonical trees in which a SUM OF NUMBERS that SymPy cannot fold (1 + sqrt(5), 2 - sqrt(3), pi + 1, sqrt(2) + sqrt(3)) is a factor, a
    numerator, a denominator, a base or an exponent: such a sum needs its brackets exactly like a sum with a symbol in it"""
    sums = [("add", ("c", "1"), ("sqrt", ("c", "5"))), ("sub", ("c", "2"), ("sqrt", ("c", "3"))), ("add", ("c", "pi"), ("c", "1")), ("add", ("sqrt", ("c", "2")), ("sqrt", ("c", "3")))]
    out = []
    for ns in sums:
        for i in (0, 1):
            x, y = ("s", i), ("s", 2)
            out += [("div", ns, x), ("mul", ns, x), ("div", x, ns), ("pow", ns, x), ("pow", x, ns), ("neg", ("mul", ns, x)), ("add", ("div", ns, x), y), ("mul", ("div", ns, x), y),
                    ("div", ("mul", ns, x), y), ("sub", y, ("mul", ns, x)), ("div", y, ("mul", ns, x)), ("pow", ("mul", ns, x), ("c", "2")), ("sqrt", ("div", ns, x))]
    return out
LEAVES = [("s", 0), ("s", 1), ("s", 2), ("c", "2"), ("c", "-1"), ("c", "1/2"), ("c", "-3/2" if False else "3/2"), ("c", "-2")]


def expand(pool):
    out = []
    for x in pool:
        out += [("neg", x), ("sqrt", x), ("fn", "sin", x), ("fn", "exp", x), ("fn", "log", x), ("abs", x)]
        for c in ("2", "-1", "3", "-2", "1/2", "-1/2", "3/2", "2/3"):
            out.append(("pow", x, ("c", c)))
    for x, y in itertools.product(pool, repeat=2):
        out += [("add", x, y), ("mul", x, y), ("div", x, y), ("pow", x, y), ("sub", x, y)]
    return out


def build(r, ev=True):
    op = r[0]
    if op == "s":
        return syms()[r[1]]
    if op == "c":
        return CONST[r[1]]
    a = [build(x, ev) for x in r[1:] if isinstance(x, tuple)]
    kw = {} if ev else {"evaluate": False}
    if op == "neg":
        return sp.Mul(-1, a[0], **kw)
    if op == "sqrt":
        return sp.Pow(a[0], sp.S.Half, **kw)
    if op == "abs":
        return sp.Abs(a[0], **kw)
    if op == "fn":
        return {"sin": sp.sin, "exp": sp.exp, "log": sp.log}[r[1]](a[0], **kw)
    if op == "add":
        return sp.Add(a[0], a[1], **kw)
    if op == "sub":
        return sp.Add(a[0], sp.Mul(-1, a[1], **kw), **kw)
    if op == "mul":
        return sp.Mul(a[0], a[1], **kw)
    if op == "div":
        return sp.Mul(a[0], sp.Pow(a[1], -1, **kw), **kw)
    if op == "pow":
        return sp.Pow(a[0], a[1], **kw)
    raise ValueError(op)


def rstr(r):
    op = r[0]
    if op == "s":
        return "abc"[r[1]]
    if op == "c":
        return r[1]
    if op == "fn":
        return f"{r[1]}({rstr(r[2])})"
    return f"{op}({','.join(rstr(x) for x in r[1:] if isinstance(x, tuple))})"


def judge(expr, text, render, timeout_ms, parser=None, float_key=None):
    """value(expr) == value(parse(text)) for all leaf values (on the common definedness domain).
    Returns (verdict, detail, model_or_None, leaf_map)"""
    from symplyphysics.docs.printer_code import code_str
    e = sp.sympify(expr)
    if isinstance(e, sp.core.relational.Relational):
        sides = [("lhs", e.lhs), ("rhs", e.rhs)]
        whole, leaf_map = exprparse.abstract_leaves(sp.Add(e.lhs, e.rhs, evaluate=False), render, float_key)
    else:
        sides = [("expr", e)]
        whole, leaf_map = exprparse.abstract_leaves(e, render, float_key)
    try:
        parsed = (parser or exprparse.parse)(text, leaf_map)
    except exprparse.ParseError as ex:
        if any(c.__name__ == "Unreadable" for c in type(ex).__mro__):
            return "candidate", str(ex), None
        return "out_of_grammar", str(ex), None
    if isinstance(parsed, tuple):
        if len(sides) != 2:
            return "candidate", "rendering contains a relation sign but the expression is not a relation", None
        psides = [parsed[2], parsed[3]]
        if {"==": "="}.get(e.rel_op, e.rel_op) != parsed[1]:
            return "candidate", f"relation {e.rel_op} rendered as {parsed[1]}", None
    else:
        if len(sides) != 1:
            return "candidate", "relation rendered without a relation sign", None
        psides = [parsed]
    q = Query(None, timeout_ms=timeout_ms)
    worst = "unsat"
    for (nm, orig), got in zip(sides, psides):
        # abstract_leaves builds fresh placeholders: map them onto the shared ones by rendering
        ab2, lm2 = exprparse.abstract_leaves(orig, render, float_key)
        ab2 = ab2.xreplace({v: leaf_map[k] for k, v in lm2.items() if k in leaf_map})
        enc = Enc()
        try:
            lt, rt = enc.tr(ab2), enc.tr(sp.sympify(got))
        except Unencodable as ex:
            return "unencoded", str(ex), None
        pos = [enc.sym(s) > 0 for s in leaf_map.values()]      # leaves of printed formulas are read as positive reals: avoids 0**-1 / sqrt of negatives
        has_float = bool(ab2.atoms(sp.Float))
        if has_float:
            d = lt - rt
            goal = z3.Or(d > z3.Q(1, 10**12) * (1 + z3.If(lt >= 0, lt, -lt)), -d > z3.Q(1, 10**12) * (1 + z3.If(lt >= 0, lt, -lt)))
        else:
            goal = lt != rt
        r, m = q.check(enc.assume + enc.side + enc.domain + pos + [goal])
        if r == "sat":
            vals = {k: str(model_value(m, enc.sym(v))) for k, v in leaf_map.items()}
            return "candidate", f"{nm}: value of the rendering differs", vals
        if r != "unsat":
            worst = "unknown"
    return ("discharged" if worst == "unsat" else "inconclusive"), worst, None


def check_tree(item):
    from symplyphysics.docs.printer_code import code_str
    r, ev = item
    name = ("" if ev else "source-form:") + rstr(r)
    out = {"name": name, "item": item}
    try:
        expr = build(r, ev)
        text = with_timeout(code_str, 20, expr)
    except ItemTimeout:
        out.update(verdict="candidate", why="code_str does not terminate", text=None, vals=None)
        return out
    except (ZeroDivisionError, ValueError, TypeError) as e:
        out.update(verdict="unencoded", why=f"SymPy does not build this tree: {type(e).__name__}")
        return out
    except Exception as e:
        out.update(verdict="candidate", why=f"code_str raised {type(e).__name__}: {e}", text=None, vals=None)
        return out
    if expr in (sp.nan, sp.zoo, sp.oo, -sp.oo):
        out.update(verdict="unencoded", why="degenerate tree")
        return out
    v, why, vals = judge(expr, text, code_str, TIMEOUT_MS)
    out.update(verdict=v, why=why, text=text, vals=vals, expr=str(expr))
    return out


def missing_display_names(value, text):
    """declared display (code) names of the library's symbols and functions occurring in `value` that are absent from the rendering as
    whole identifiers ("Symbols appear under their display names")"""
    import re
    from symplyphysics.core.symbols.symbols import DimensionSymbol
    if not isinstance(value, sp.Basic):
        return []
    leaves = {a for a in value.atoms(sp.Symbol) if isinstance(a, DimensionSymbol)}
    leaves |= {a.func for a in value.atoms(sp.core.function.AppliedUndef) if isinstance(a.func, DimensionSymbol)}
    out = []
    seen = {}
    for leaf in sorted(leaves, key=str):
        dn = getattr(leaf, "display_name", None)
        if dn and not re.search(r"(?<![A-Za-z_0-9])" + re.escape(dn) + r"(?![A-Za-z_0-9])", text):
            out.append(dn)
        # two different symbols of one equation under one name: the rendering, read by its names, is another expression
        if dn and dn in seen and seen[dn] != leaf:
            out.append(f"{dn} [one name for two different symbols of this equation]")
        seen.setdefault(dn, leaf)
    return sorted(out)


def check_file(relpath):
    """all documented formula members of one catalogue module, in source form"""
    from symplyphysics.docs.printer_code import code_str
    from symplyphysics.docs.parse import LawDirectiveType
    out = []
    try:
        res = docsrc.members_of(relpath)
    except Exception as e:
        return [{"name": f"catalogue:{relpath}", "verdict": "unencoded", "why": f"documentation pipeline raised {type(e).__name__}: {str(e)[:100]}"}]
    if res is None:
        return []
    members, _ = res
    for m in members:
        if not any(d.directive_type == LawDirectiveType.SYMBOL for d in m.directives):
            continue
        name = f"catalogue:{relpath}:{m.name}"
        try:
            text = code_str(m.value)
        except Exception as e:
            out.append({"name": name, "verdict": "candidate", "why": f"code_str raised {type(e).__name__}: {e}", "file": relpath, "member": m.name, "text": None, "vals": None})
            continue
        vals = m.value if isinstance(m.value, (list, tuple)) else [m.value]
        if isinstance(m.value, (list, tuple)):
            out.append({"name": name, "verdict": "unencoded", "why": "list-valued member"})
            continue
        missing = missing_display_names(m.value, text)
        if missing:
            out.append({"name": name, "verdict": "candidate", "why": f"declared display names {missing} do not appear in the rendering (or name two symbols at once)", "file": relpath, "member": m.name,
                        "text": text, "vals": None})
            continue
        out.append({"name": name + ":display-names", "verdict": "discharged", "trivial": True})
        try:
            v, why, model = judge(m.value, text, code_str, TIMEOUT_MS)
        except Exception as e:
            v, why, model = "unencoded", f"{type(e).__name__}: {str(e)[:100]}", None
        out.append({"name": name, "verdict": v, "why": why, "file": relpath, "member": m.name, "text": text, "vals": model})
    return out


REPLAY_TREE = r'''
import sys
import sympy as sp
from checks import c17
from vlib import exprparse
from symplyphysics.docs.printer_code import code_str
item = {item!r}; vals = {vals!r}
r, ev = item
expr = c17.build(tuple(r) if not isinstance(r, tuple) else r, ev)
text = code_str(expr)
ab, lm = exprparse.abstract_leaves(expr, code_str)
parsed = exprparse.parse(text, lm)
bad = False
# the solver's point first (uninterpreted powers make it arbitrary), then generic points: any point where the values differ is a counterexample
pts = [{{lm[k]: sp.Rational(v) for k, v in (vals or {{}}).items() if k in lm}}, {{}}, {{}}, {{}}]
gen = [sp.Rational(7, 5), sp.Rational(5, 3), sp.Rational(11, 4), sp.Rational(2, 7), sp.Rational(13, 6)]
for i, sub in enumerate(pts):
    for j, (k, s) in enumerate(sorted(lm.items())): sub.setdefault(s, gen[(i + j) % len(gen)])
    a, b = sp.N(ab.subs(sub), 30), sp.N(sp.sympify(parsed).subs(sub), 30)
    print("expression:", expr, " rendering:", text, " value:", a, " value of the rendering read back:", b)
    if a.is_real and b.is_real and abs(a - b) > 1e-12 * (1 + abs(a)): bad = True
if bad:
    print("REPRODUCED"); sys.exit(1)
'''

REPLAY_FILE = r'''
import sys
import sympy as sp
from checks import c17
relpath, member = {file!r}, {member!r}
res = [r for r in c17.check_file(relpath) if r.get("member") == member and r["verdict"] == "candidate"]
for r in res:
    print(r["name"], "rendering:", r.get("text"), "->", r["why"], r.get("vals"))
if any("display names" in r["why"] or "raised" in r["why"] for r in res):
    print("REPRODUCED"); sys.exit(1)
if res:
    # numeric confirmation at the model
    from vlib import docsrc, exprparse
    from symplyphysics.docs.printer_code import code_str
    members, _ = docsrc.members_of(relpath)
    m = [x for x in members if x.name == member][0]
    e = m.value
    sides = [e.lhs, e.rhs] if isinstance(e, sp.core.relational.Relational) else [e]
    whole, lm = exprparse.abstract_leaves(sp.Add(*sides, evaluate=False), code_str)
    try:
        parsed = exprparse.parse(code_str(e), lm)
    except exprparse.ParseError as ex:
        print("unreadable:", ex); sys.exit(0)
    ps = [parsed[2], parsed[3]] if isinstance(parsed, tuple) else [parsed]
    vals = res[0].get("vals") or {{}}
    sub = {{lm[k]: sp.Rational(v) for k, v in vals.items() if k in lm}}
    for k, s in lm.items(): sub.setdefault(s, sp.Rational(7, 5))
    bad = len(ps) != len(sides)
    for o, p in zip(sides, ps):
        ab, lm2 = exprparse.abstract_leaves(o, code_str)
        ab = ab.xreplace({{v: lm[k] for k, v in lm2.items()}})
        x, y = sp.N(ab.subs(sub), 30), sp.N(sp.sympify(p).subs(sub), 30)
        print("value", x, "rendering read back", y)
        if abs(x - y) > 1e-12 * (1 + abs(x)): bad = True
    if bad:
        print("REPRODUCED"); sys.exit(1)
'''


def run(ctx):
    global TIMEOUT_MS
    thorough = ctx.tier == "thorough"
    TIMEOUT_MS = 30000 if thorough else 10000
    rng = random.Random(ctx.seed)
    d1 = expand(LEAVES)
    pool = LEAVES + d1
    n2 = 40000 if thorough else 2500
    d2 = []
    seen = set()
    while len(d2) < n2:
        k = rng.random()
        x = rng.choice(d1)
        if k < 0.25:
            r = rng.choice([("neg", x), ("sqrt", x), ("fn", "sin", x), ("abs", x), ("pow", x, ("c", rng.choice(list(CONST)[:9])))])
        else:
            y = rng.choice(pool)
            op = rng.choice(["add", "mul", "div", "div", "pow", "sub", "mul"])
            r = (op, x, y) if rng.random() < 0.5 else (op, y, x)
        if r not in seen:
            seen.add(r)
            d2.append(r)
    d3 = []
    if thorough:
        while len(d3) < 20000:
            x, y = rng.choice(d2), rng.choice(pool)
            op = rng.choice(["mul", "div", "div", "pow", "sub"])
            d3.append((op, x, y) if rng.random() < 0.5 else (op, y, x))
    trees = d1 + d2 + d3 + numeric_sum_trees()
    # Only canonical (auto-evaluated) trees are in the property's quantifier; fully unevaluated synthetic trees are NOT claimed
    # (the printers do mis-bracket some of them, e.g. a - (b + c) built with evaluate=False renders as "a - b + c": see DESIGN.md,
    # observations).  Source forms are covered where the property puts them: the catalogue members below.
    items = [(r, True) for r in trees]
    files = docsrc.source_files()
    ctx.explanation = (
        "Engine S + independent reader. (a) Canonical (auto-evaluated) and source-form (evaluate=False) expression trees from the grammar "
        "x | n | p/q | -E | E+E | E-E | E*E | E/E | E^n | E^(p/q) | E^E | sqrt | sin/exp/log | Abs over 3 symbols are rendered by the real "
        "code_str; (b) every documented formula member of every catalogue module is obtained in source form through the real "
        "patch_sympy_evaluate + find_members_and_functions and rendered by code_str. The rendering is read back by vlib/exprparse.py (Pratt "
        "parser written from the statement: + - < * / < unary minus < ^, call syntax; name-aware tokenisation; non-arithmetic heads are opaque "
        "leaves keyed by their own rendering). z3 decides value(original) != value(reading) over ALL positive real leaf values; unsat = "
        "rendering is meaning-preserving.")
    ctx.functions_encoded = ["docs.printer_code.code_str", "SymbolCodePrinter._print_Mul/_print_div/_print_Pow/_print_Add/_print_Function/_print_log/_print_Relational",
                             "docs.miscellaneous.needs_mul_brackets/needs_add_brackets", "docs.patch.patch_sympy_evaluate", "docs.parse.find_members_and_functions"]
    ctx.bounds = [f"trees: depth <= 1 exhaustive ({len(d1)}), depth 2 seed-sampled ({len(d2)})" + (f", depth 3 sampled ({len(d3)})" if d3 else ""),
f"all {len(files)} catalogue source files (every :laws:symbol:: member)",
                  "leaf values: all positive reals (sign-sensitive identities such as sqrt(x^2) = x are read on x > 0)", f"z3 timeout {TIMEOUT_MS} ms"]
    ctx.outside = ["negative/zero leaf values", "list-valued members", "renderings outside the reader's grammar are reported out_of_grammar (inconclusive), never passed"]
    ctx.trusted = ["z3 nlsat", "vlib/exprparse.py", "SymPy arithmetic when rebuilding the parsed expression"]
    res = pmap(check_tree, items)
    groups = {}
    for r in res:
        if "error" in r:
            ctx.harness_errors.append(r["error"][-300:])
            continue
        ctx.add_solver(1 if r["verdict"] in ("discharged", "candidate", "inconclusive") else 0, 0.0)
        v = r["verdict"]
        if v == "discharged":
            ctx.ob(r["name"], "discharged", sample={"tree": r["name"], "rendering": r["text"]} if len(ctx.samples) < 6 and "div" in r["name"] else None)
        elif v == "out_of_grammar":
            ctx.ob(r["name"], "inconclusive", "out_of_grammar: " + r["why"][:60])
        elif v in ("unencoded", "inconclusive"):
            ctx.ob(r["name"], v, r["why"][:80])
        else:
            tree, ev = r["item"]
            key = f"C17:{'canonical' if ev else 'source-form'}:{tree[0]}({','.join(x[0] if isinstance(x, tuple) else str(x) for x in tree[1:])})"
            groups.setdefault(key, []).append(r)
    for key, lst in sorted(groups.items()):
        lst.sort(key=lambda r: len(r["name"]))
        for r in lst[:3]:
            if ctx.violation(key, f"{r['name']} = {r.get('expr')} renders as '{r['text']}': {r['why']} ({len(lst)} trees)", REPLAY_TREE.format(item=r["item"], vals=r["vals"])):
                break
    fres = pmap(check_file, files, chunk=4)
    nmem = 0
    for rl in fres:
        if isinstance(rl, dict):
            ctx.harness_errors.append(rl.get("error", "")[-300:])
            continue
        for r in rl:
            nmem += 1
            v = r["verdict"]
            if v == "discharged":
                if r.get("trivial"):
                    ctx.ob(r["name"], "discharged", nontrivial=False)
                else:
                    ctx.ob(r["name"], "discharged", sample={"member": r["name"], "rendering": r.get("text")} if len(ctx.samples) < 10 else None)
            elif v == "out_of_grammar":
                ctx.ob(r["name"], "inconclusive", "out_of_grammar: " + r["why"][:60])
            elif v in ("unencoded", "inconclusive"):
                ctx.ob(r["name"], v, r["why"][:80])
            else:
                ctx.violation("C17:" + r["name"], f"{r['name']} renders as '{r.get('text')}': {r['why']} {r.get('vals')}", REPLAY_FILE.format(file=r["file"], member=r["member"]))
    ctx.extra["catalogue_members"] = nmem
    ctx.extra["programs"] = len(items) + nmem
