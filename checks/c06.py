"""C06 - symbolic dimension inference (engine L).

Real collect_expression_and_dimension (+ all _collect_*, _split_numeric_and_symbolic,
_collect_unique_dimension, Symbolic.__init__) run natively on trees over
  * real symplyphysics Symbols / Functions whose declared dimension is symbolic (8 z3 Reals),
  * quantities with symbolic scale factor and dimension,  * symbolic numbers,
forking at the lifted predicates.  Per path z3 decides the outcome against the
statement's compositional semantics (vlib/qspec.ispec) for ALL declared
dimensions and ALL quantity values; value-equality of the returned expression is
decided by Sym2SMT; the commuting diagram with quantity construction (C05's
subject) is executed lifted on every successful path.
"""
from __future__ import annotations

import itertools
import random

import sympy as sp
import z3

from vlib import lift, qspec
from vlib.lift import Session, explore, coverage_ok, make_quantity, to_vec, vec_eq, vec_zero, rebound, standard_bindings, LiftUnsupported, factory
from vlib.par import pmap
from vlib.s2smt import model_value, Unencodable

LEVEL = "other"
TIMEOUT_MS = 10000
CONSTS = {"2": sp.Integer(2), "-1": sp.Integer(-1), "1/2": sp.Rational(1, 2), "0": sp.Integer(0), "3": sp.Integer(3)}


def bindings():
    from symplyphysics.core.dimensions import collect_expression as CE
    proxy = lift.DimSysProxy()
    return standard_bindings() + [
        (CE, "dimsys_SI", proxy),
        (CE, "is_any_dimension", factory(lift.lifted_is_any_dimension)),
        (CE, "is_number", factory(lift.lifted_is_number)),
    ]


def leaves_of(r):
    if r[0] in ("x", "q", "n", "f", "d", "dm"):
        return 1
    if r[0] == "c":
        return 0
    return sum(leaves_of(a) for a in r[1:] if isinstance(a, tuple))


def depth(r):
    if r[0] in ("x", "q", "n", "f", "d", "dm", "c"):
        return 0
    return 1 + max(depth(a) for a in r[1:] if isinstance(a, tuple))


# ("dm", "010"): the unevaluated mixed derivative of g(x0, x1) with respect to x0, x1, x0 (a variable repeated in non-adjacent entries)
BASE = [("x", 0), ("x", 1), ("q", 0), ("q", 1), ("n",), ("f", 0), ("d", 1), ("d", 2), ("dm", "01"), ("dm", "010")]


def expand(pool, max_leaves):
    new = []
    for a in pool:
        new.append(("abs", a))
        new.append(("fn", a))
        for c in ("2", "-1", "1/2"):
            new.append(("pow", a, ("c", c)))
        new.append(("mul", ("c", "3"), a))
        new.append(("add", a, ("c", "0")))
        new.append(("add", a, ("c", "2")))
        new.append(("max", ("c", "0"), a))
    for a, b in itertools.combinations_with_replacement(pool, 2):
        for op in ("add", "mul", "min", "max"):
            new.append((op, a, b))
    for a, b in itertools.product(pool, repeat=2):
        new.append(("pow", a, b))
    for a, b, c in itertools.combinations_with_replacement(pool, 3):
        if leaves_of(a) + leaves_of(b) + leaves_of(c) <= max_leaves:
            new.append(("add", a, b, c))
            new.append(("mul", a, b, c))
            new.append(("min", a, b, c))
    return [r for r in new if leaves_of(r) <= max_leaves]


def depth1(max_leaves=3):
    return list(dict.fromkeys(expand(BASE, max_leaves)))


def sample_depth2(rng, count, d1, max_leaves=3):
    """seed-chosen depth-2 trees: one random constructor applied to random depth<=1 operands (at least one of depth 1)"""
    pool = BASE + d1
    out = set()
    tries = 0
    while len(out) < count and tries < count * 50:
        tries += 1
        k = rng.choice(["un", "bin", "bin", "bin", "pow", "tern"])
        a = rng.choice(d1)
        if k == "un":
            r = rng.choice([("abs", a), ("fn", a), ("pow", a, ("c", rng.choice(["2", "-1", "1/2"]))), ("mul", ("c", "3"), a),
                            ("add", a, ("c", "0")), ("max", ("c", "0"), a), ("wrap", a)])
        elif k == "bin":
            b = rng.choice(pool)
            r = (rng.choice(["add", "mul", "min", "max"]), a, b)
        elif k == "pow":
            b = rng.choice(pool)
            r = ("pow", a, b) if rng.random() < 0.5 else ("pow", b, a)
        else:
            b, c = rng.choice(BASE), rng.choice(BASE)
            r = (rng.choice(["add", "mul", "min"]), a, b, c)
        if leaves_of(r) <= max_leaves:
            out.add(r)
    return sorted(out, key=str)


def build(r, env):
    op = r[0]
    if op == "x":
        return env["x"][r[1]]
    if op == "q":
        return env["q"][r[1]]
    if op == "n":
        return env["n"]
    if op == "c":
        return CONSTS[r[1]]
    if op == "f":
        return env["f"](env["x"][0])
    if op == "d":
        return sp.Derivative(env["f"](env["x"][0]), (env["x"][0], r[1]))
    if op == "dm":
        return sp.Derivative(env["g"](env["x"][0], env["x"][1]), *[env["x"][int(i)] for i in r[1]], evaluate=False)
    args = [build(a, env) for a in r[1:] if isinstance(a, tuple)]
    if op == "add":
        return sp.Add(*args)
    if op == "mul":
        return sp.Mul(*args)
    if op == "pow":
        return sp.Pow(*args)
    if op == "abs":
        return sp.Abs(args[0])
    if op == "min":
        return sp.Min(*args)
    if op == "max":
        return sp.Max(*args)
    if op == "fn":
        return sp.sin(args[0])
    if op == "wrap":
        return ("wrap", args[0])
    raise ValueError(op)


def rstr(r):
    op = r[0]
    if op in ("x", "q"):
        return f"{op}{r[1]}"
    if op == "n":
        return "n"
    if op == "c":
        return r[1]
    if op == "f":
        return "f(x0)"
    if op == "d":
        return f"d{r[1]}f/dx0"
    if op == "dm":
        return "d g(x0,x1)/" + "".join(f"dx{i}" for i in r[1])
    return f"{op}({','.join(rstr(a) for a in r[1:] if isinstance(a, tuple))})"


def make_env(ses, concrete=None):
    from symplyphysics import Symbol, Function
    if concrete is None:
        xs = [Symbol(f"x{i}", ses.dim(f"Dx{i}_"), real=True) for i in range(2)]
        f = Function("f", [xs[0]], ses.dim("Df_"))
        g = Function("g", [xs[0], xs[1]], ses.dim("Dg_"))
        qs = [make_quantity(ses.scalar(f"s{i}_"), ses.dim(f"Dq{i}_")) for i in range(2)]
        n = ses.scalar("n")
    else:
        from symplyphysics import Quantity
        # leaves listed in concrete["respell"] get the same physical dimension in another spelling (a model fixes exponent vectors, not names)
        mk = lambda tag, exps: (concrete["mkdim2"] if tag in concrete.get("respell", ()) else concrete["mkdim"])(exps)
        xs = [Symbol(f"x{i}", mk(f"x{i}", concrete["Dx"][i]), real=True) for i in range(2)]
        f = Function("f", [xs[0]], mk("f", concrete["Df"]))
        g = Function("g", [xs[0], xs[1]], mk("g", concrete.get("Dg", concrete["Df"])))
        qs = [Quantity(sp.Rational(concrete["s"][i]), dimension=mk(f"q{i}", concrete["Dq"][i])) for i in range(2)]
        n = sp.Rational(concrete["n"])
    return {"x": xs, "f": f, "g": g, "q": qs, "n": n}


def check_recipe(r):
    from symplyphysics.core.dimensions import collect_expression as CE
    from symplyphysics.core.dimensions import collect_quantity as CQ
    from symplyphysics.core.operations.symbolic import Average
    from symplyphysics.core.errors import UnitsError
    name = rstr(r)
    import time as _t
    t0 = _t.time()
    out = {"name": name, "recipe": r, "queries": 0, "solver_s": 0.0, "paths": 0, "sub": {}, "t0": t0}
    ses = Session(None, timeout_ms=TIMEOUT_MS)
    ses.enc.extra_handlers.append(qspec.quantity_handler)
    qspec.ISPEC_ASSUME.clear()
    with ses.active(), rebound(*bindings()):
        env = make_env(ses)
        try:
            expr = build(r, env)
        except (ValueError, TypeError) as e:
            out.update(verdict="unencoded", why=f"SymPy does not build this tree: {type(e).__name__}")
            return out
        wrap = isinstance(expr, tuple)
        if wrap:
            expr = expr[1]
        try:
            sem = qspec.ispec(expr)
            ses.assume += list(qspec.ISPEC_ASSUME)
            if wrap:
                paths = explore(lambda: (None, Average(expr).dimension), max_paths=600)
            else:
                paths = explore(lambda: CE.collect_expression_and_dimension(expr), max_paths=600)
        except (LiftUnsupported, Unencodable) as e:
            out.update(verdict="unencoded", why=f"{type(e).__name__}: {e}")
            return out
        except RecursionError:
            out.update(verdict="unencoded", why="sympy recursion")
            return out
        out["paths"] = len(paths)
        try:
            cov = coverage_ok(paths)
            unknown = cov != "covered"
            bad = None
            in_val = None
            for p in paths:
                if p.kind == "ret":
                    rexpr, rdim = p.value
                    if getattr(rdim, "tainted", False):
                        rr0, m0 = ses.check(p.pc)
                        if rr0 == "sat":
                            bad = (p, "accepted:malformed-dimension", m0)
                            break
                    gd = to_vec(rdim)
                    conds = [sem.wf, z3.Or(sem.anyf, vec_eq(gd, sem.dim))]
                    label = "accepted"
                    if rexpr is not None:
                        try:
                            if in_val is None:
                                in_val = ses.z(qspec._value(expr))
                            conds.append(ses.z(qspec._value(rexpr)) == in_val)
                        except Unencodable as e:
                            out["sub"]["value"] = f"unencoded: {e}"
                    okf = z3.And(conds)
                elif isinstance(p.value, (UnitsError, ValueError)):
                    okf = z3.Not(sem.wf)
                    label = "refused"
                else:
                    okf = z3.BoolVal(False)
                    label = f"raised {type(p.value).__name__}: {str(p.value)[:80]}"
                res, m = ses.check(p.pc + [z3.Not(okf)])
                if res == "sat":
                    # which clause failed?
                    if p.kind == "ret":
                        ev = lambda fm: bool(z3.is_true(m.eval(fm, model_completion=True)))
                        if not ev(sem.wf):
                            label = "accepted:ill-formed"
                        elif not ev(conds[1]):
                            label = "accepted:wrong-dimension"
                        else:
                            label = "accepted:value-differs"
                    bad = (p, label, m)
                    break
                if res != "unsat" or p.unknown:
                    unknown = True
            # commuting diagram with quantity construction on successful paths (trees without functions/derivatives)
            if bad is None and not wrap and not any(t in str(r) for t in ("'fn'", "'f'", "'d'", "'dm'")):
                diag = diagram(ses, env, expr, paths, CQ)
                out["sub"]["diagram"] = diag[0]
                if diag[0] == "sat":
                    bad = (diag[1], "diagram: quantity substitution has a different dimension", diag[2])
                elif diag[0] != "unsat":
                    out["sub"]["diagram_note"] = diag[0]
        except (LiftUnsupported, Unencodable) as e:
            out.update(verdict="unencoded", why=f"{type(e).__name__}: {e}")
            return out
        out["queries"], out["solver_s"] = ses.queries, ses.solver_s
        if bad is not None:
            p, label, m = bad
            mv = lambda t: str(model_value(m, t))
            model = {"Dx": [[mv(c) for c in to_vec(x.dimension)] for x in env["x"]], "Df": [mv(c) for c in to_vec(env["f"].dimension)], "Dg": [mv(c) for c in to_vec(env["g"].dimension)],
                     "Dq": [[mv(c) for c in to_vec(q.dimension)] for q in env["q"]], "s": [mv(ses.z(q.scale_factor)) for q in env["q"]],
                     "n": mv(ses.z(env["n"])), "sx": [mv(ses.z(v)) for v in env.get("sx", [])],
                     "xv": [mv(ses.z(x)) for x in env["x"]], "label": label}
            ev = lambda fm: bool(z3.is_true(m.eval(fm, model_completion=True)))
            expect = {"wf": ev(sem.wf), "any": ev(sem.anyf), "dim": [mv(c) for c in sem.dim]}
            out.update(verdict="candidate", label=label, model=model, expect=expect, wrap=("diagram" if label.startswith("diagram") else wrap),
                       why=f"{name}: {label}; statement says {'well-formed' if expect['wf'] else 'ill-formed'}")
        elif unknown:
            out.update(verdict="inconclusive", why="unknown/coverage")
        else:
            out.update(verdict="discharged")
    return out


def diagram(ses, env, expr, paths, CQ):
    """replace symbols by non-zero quantities of their declared dimension; the real quantity collector must give the inferred dimension"""
    reps = {}
    extra = []
    env["sx"] = []
    for x in env["x"]:
        s = ses.scalar("sx")
        env["sx"].append(s)
        reps[x] = make_quantity(s, x.dimension)
        extra.append(ses.z(s) != 0)
        extra.append(ses.z(s) == ses.z(x))     # the quantity carries the symbol's value
    try:
        qexpr = expr.xreplace(reps)
    except (ValueError, TypeError):
        return ("unencoded: SymPy does not build the substituted tree", None, None)
    worst = "unsat"
    for p in paths:
        if p.kind != "ret":
            continue
        _, rdim = p.value
        saved = list(ses.assume)
        ses.assume += list(p.pc) + extra
        try:
            inner = explore(lambda: CQ.collect_quantity_factor_and_dimension(qexpr), max_paths=300)
        finally:
            ses.assume = saved
        for ip in inner:
            if ip.kind != "ret":
                # the quantity collector refuses: only acceptable if the value is where the two readings differ (outside)
                res, m = ses.check(p.pc + extra + ip.pc)
                if res == "sat":
                    return ("sat", p, m)
                continue
            f, d = ip.value
            res, m = ses.check(p.pc + extra + ip.pc + [ses.z(f) != 0, z3.Not(vec_eq(to_vec(d), to_vec(rdim)))])
            if res == "sat":
                return ("sat", p, m)
            if res != "unsat":
                worst = "unknown"
    return (worst, None, None)


REPLAY = r'''
import sys
import sympy as sp
from sympy.physics import units
from symplyphysics import Quantity, dimensionless
from symplyphysics.core.dimensions import collect_expression_and_dimension
from symplyphysics.core.errors import UnitsError
from symplyphysics.core.operations.symbolic import Average
from sympy.physics.units.definitions.dimension_definitions import angle as angle_type
from sympy.physics.units.systems.si import dimsys_SI
from checks import c06
BASE = [units.mass, units.length, units.time, units.current, units.temperature, units.amount_of_substance, units.luminous_intensity, angle_type]
def mkdim(exps):
    d = dimensionless
    for b, e in zip(BASE, exps):
        e = sp.Rational(e)
        if e != 0: d = d * b**e
    return d
recipe = {recipe!r}; model = {model!r}; expect = {expect!r}; wrap = {wrap!r}
ENERGY = mkdim(["1", "2", "-2", "0", "0", "0", "0", "0"])
def mkdim2(exps):
    # same exponents, spelled through the named derived dimension `energy`: equivalent to mkdim(exps), structurally different
    return mkdim(exps) * units.energy / ENERGY
model["mkdim"] = mkdim; model["mkdim2"] = mkdim2
def attempt(respell):
    model["respell"] = respell
    print("-- leaves respelled:", list(respell) or "none")
    env = c06.make_env(None, model)
    expr = c06.build(recipe, env)
    if wrap is True: expr = expr[1]
    if wrap == "diagram":
        rexpr, rdim = collect_expression_and_dimension(expr)
        reps = {{x: Quantity(sp.Rational(v), dimension=x.dimension) for x, v in zip(env["x"], model["sx"])}}
        try:
            q = Quantity(expr.xreplace(reps))
        except Exception as e:
            print("REPRODUCED: inference accepts", expr, "with dimension", rdim, "but the quantity substitution is refused:", e); return True
        print("inferred", rdim, "quantity", q.dimension, "scale", q.scale_factor)
        if q.scale_factor != 0 and not dimsys_SI.equivalent_dims(rdim.subs({{x: sp.Rational(v) for x, v in zip(env["x"], model["sx"])}}), q.dimension):
            print("REPRODUCED"); return True
        return False
    try:
        if wrap: rdim = Average(expr).dimension
        else: rexpr, rdim = collect_expression_and_dimension(expr)
        got = "accepted"
    except (UnitsError, ValueError) as e:
        got = "refused"; print("error:", e)
    except Exception as e:
        got = "raised " + type(e).__name__; print("error:", e)
    print("expression:", c06.rstr(recipe), "->", got)
    bad = False
    if expect["wf"]:
        if got != "accepted": bad = True; print("well-formed by the statement but", got)
        elif not expect["any"]:
            try:
                deps = dimsys_SI.get_dimensional_dependencies(rdim)
            except Exception as e:
                print("REPRODUCED: the inferred dimension", rdim, "is not a dimension the unit system can process:", type(e).__name__, e); return True
            gd = [sp.nsimplify(next((v for k, v in deps.items() if str(k.name) == str(b.name)), 0)) for b in BASE]
            if gd != [sp.Rational(x) for x in expect["dim"]]: bad = True; print("inferred dimension", gd, "expected", expect["dim"])
        if not bad and not wrap:
            # the collected expression must have the value of the input (quantities by scale factor, symbols at the model's values)
            from sympy.physics.units import Quantity as SymQuantity
            def num(e):
                e = sp.sympify(e)
                e = e.xreplace({{q: q.scale_factor for q in e.atoms(SymQuantity)}})
                e = e.subs({{x: sp.Rational(v) for x, v in zip(env["x"], model.get("xv", []))}})
                e = e.replace(lambda t: isinstance(t, sp.core.function.AppliedUndef), lambda t: sp.Rational(7, 3))
                return sp.N(e, 30)
            try:
                a, b = num(expr), num(rexpr)
                print("value of the input", a, " value of the collected expression", b)
                if a.is_real and b.is_real and abs(a - b) > 1e-12 * (1 + abs(a)): bad = True; print("collected expression differs in value")
            except Exception as e:
                print("values not comparable:", type(e).__name__, e)
    else:
        if got == "accepted": bad = True; print("ill-formed by the statement but accepted with dimension", rdim)
    if bad:
        print("REPRODUCED"); return True
    return False
for respell in ((), ("q1",), ("q0",), ("x1",), ("x0",), ("f",)):
    if attempt(respell):
        sys.exit(1)
'''


def run(ctx):
    global TIMEOUT_MS
    thorough = ctx.tier == "thorough"
    TIMEOUT_MS = 30000 if thorough else 10000
    rng = random.Random(ctx.seed)
    d1 = depth1()
    base = BASE + d1 + [("wrap", a) for a in BASE + d1[::7]]
    items = base + sample_depth2(rng, 8000 if thorough else 500, d1)
    ctx.explanation = (
        "Engine L. Trees over real symplyphysics Symbols/Functions with SYMBOLIC declared dimensions (8 z3 Reals each), quantities with "
        "symbolic scale and dimension, symbolic numbers, constants, Derivative(f(x0), (x0, n)), sin(.), Average(.) wrapper. The real "
        "collect_expression_and_dimension runs natively with lifted predicates; per path z3 decides: accepted => well-formed and "
        "dimension == compositional dimension (unless the value is a known zero) and returned expression value-equal to the input "
        "(quantities read as scale factors); UnitsError/ValueError => ill-formed; paths cover the input space. On successful paths the "
        "symbols are replaced by non-zero symbolic quantities of the declared dimensions and the real quantity collector is executed "
        "lifted: its dimension must equal the inferred one (commuting diagram).")
    ctx.functions_encoded = ["collect_expression.collect_expression_and_dimension", "_split_numeric_and_symbolic", "_collect_mul", "_collect_pow",
                             "_collect_unique_dimension", "_collect_add", "_collect_abs", "_collect_min_max", "_collect_function", "_collect_derivative",
                             "operations.symbolic.Symbolic.__init__", "collect_quantity.collect_quantity_factor_and_dimension (diagram)"]
    ctx.stubs = list(lift.STANDARD_STUBS) + ["same predicates rebound in collect_expression's namespace"]
    ctx.bounds = [f"trees with <= 3 leaves, depth <= 2 ({'all' if thorough else 'depth<=1 all, depth 2 seed-sampled up to 900 trees'})",
                  "declared dimensions: all real 8-vectors; quantity scale factors: all reals", f"z3 timeout {TIMEOUT_MS} ms"]
    ctx.outside = ["a power whose base is a known zero; a nested numeric sum that cancels to zero without all terms being zero (zero-ness that is semantic, not literal)",
                   "infinite/NaN literals inside symbolic trees (covered concretely below)", "IndexedSymbol / Sum / Product nodes", "deeper trees"]
    ctx.trusted = ["z3", "vlib/qspec.ispec (semantics from the statement)", "stubs listed"]
    res = pmap(check_recipe, items)
    groups = {}
    for r in res:
        if "error" in r:
            ctx.harness_errors.append(r["error"][-400:])
            continue
        ctx.add_solver(r["queries"], r["solver_s"])
        ctx.paths += r["paths"]
        v = r["verdict"]
        if v == "discharged":
            smp = {"tree": r["name"], "paths": r["paths"], "sub": r["sub"]} if (len(ctx.samples) < 8 and r["paths"] >= 3) else None
            ctx.ob(r["name"], "discharged", sample=smp)
            if r["sub"].get("diagram") == "unsat":
                ctx.ob(r["name"] + ":diagram", "discharged")
            elif "diagram" in r["sub"]:
                ctx.ob(r["name"] + ":diagram", "inconclusive", r["sub"]["diagram"])
        elif v in ("unencoded", "inconclusive"):
            ctx.ob(r["name"], v, r["why"])
        else:
            key = f"C06:{r['recipe'][0]}:{r['label'].split(':')[0]}:{'wf' if r['expect']['wf'] else 'illformed'}"
            groups.setdefault(key, []).append(r)
    ctx.extra["programs"] = len(items)
    for key, lst in sorted(groups.items()):
        lst.sort(key=lambda r: len(r["name"]))
        for r in lst[:4]:
            if ctx.violation(key, f"{r['why']} [model {r['model']}] ({len(lst)} trees in this class)",
                             REPLAY.format(recipe=r["recipe"], model=r["model"], expect=r["expect"], wrap=r["wrap"]),
                             extra={"trees": [x["name"] for x in lst[:30]]}):
                break
    concrete_specials(ctx)


REPLAY_SPECIAL = r'''
import sys
import sympy as sp
from sympy.physics import units
from symplyphysics import Quantity, Symbol
from symplyphysics.core.dimensions import collect_expression_and_dimension
from symplyphysics.core.errors import UnitsError
from sympy.physics.units.systems.si import dimsys_SI
t = Symbol("t", units.time); l = Symbol("l", units.length)
cases = {{"t+oo": lambda: t + sp.oo, "t-oo": lambda: t - sp.oo, "Add(t,nan)": lambda: sp.Add(t, sp.nan, evaluate=False), "Max(0,t)": lambda: sp.Max(0, t),
         "Min(oo,l)": lambda: sp.Min(sp.oo, l, evaluate=False),
         "t+Quantity(0 m)": lambda: t + Quantity(0 * units.meter), "Quantity(0 m)+t": lambda: Quantity(0 * units.meter, display_symbol="a_zero") + t}}
name = {name!r}; want = {want!r}
def value_at(expr_):
    from sympy.physics.units import Quantity as SymQ
    v = sp.sympify(expr_); v = v.xreplace({{q_: q_.scale_factor for q_ in v.atoms(SymQ)}})
    return v.subs({{t: 3, l: 5}})
try:
    src = cases[name]()
    e, d = collect_expression_and_dimension(src); ok = dimsys_SI.equivalent_dims(d, getattr(units, want))
    print(name, "->", e, d)
    vin, vout = value_at(src), value_at(e)
    same = (vin == vout) or (vin is sp.nan and vout is sp.nan) or (vin.is_finite and vout.is_finite and abs(sp.N(vin - vout)) < 1e-12)
    print("value of the input", vin, " value of the returned expression", vout)
    ok = ok and same
except Exception as ex:
    ok = False; print(name, "raised", type(ex).__name__, ex)
if not ok:
    print("REPRODUCED"); sys.exit(1)
'''


REPLAY_WRAPPERS = r'''
import sys
from checks import c06
bad = c06.wrapper_history()
for b in bad: print(b)
if bad:
    print("REPRODUCED"); sys.exit(1)
'''


def wrapper_history():
    """wrappers (Average, FiniteDifference, ExactDifferential) take their dimension from inference on their OWN operand: creating a
    wrapper of a look-alike operand (same display name, other dimension) or with other flags must not change an earlier wrapper"""
    from sympy.physics import units
    from symplyphysics import Symbol
    from symplyphysics.core.operations import symbolic as SY
    from sympy.physics.units.systems.si import dimsys_SI
    bad = []
    for cls in (SY.Average, SY.FiniteDifference, SY.ExactDifferential):
        k1, k2 = Symbol("K", units.energy), Symbol("K", units.pressure)
        a = cls(k1)
        d_before = a.dimension
        b = cls(k2)
        if not dimsys_SI.equivalent_dims(a.dimension, units.energy) or a.factor is not k1:
            bad.append(f"{cls.__name__}(K: energy) reports {a.dimension} (operand {a.factor!r} is the first one: {a.factor is k1}) after {cls.__name__}(K: pressure) was created; before: {d_before}")
        if not dimsys_SI.equivalent_dims(b.dimension, units.pressure):
            bad.append(f"{cls.__name__}(K: pressure) reports {b.dimension}")
        c = cls(k1 * k2)
        if not dimsys_SI.equivalent_dims(c.dimension, units.energy * units.pressure):
            bad.append(f"{cls.__name__}(K*K) reports {c.dimension}")
        w1 = cls(k1, wrap_latex=False)
        w2 = cls(k1, wrap_latex=True, wrap_code=True)
        if w1.wrap_latex is not False or w1.wrap_code is not False:
            bad.append(f"{cls.__name__}(K) created without wrapping reports wrap flags {(w1.wrap_code, w1.wrap_latex)} after a wrapped twin was created")
    # a wrapper is a dimensioned LEAF of a larger expression (quotients of differences, sums with the bare operand, exponents, nesting)
    from symplyphysics.core.dimensions import collect_expression_and_dimension as infer
    wrappers = [getattr(SY, n) for n in ("Average", "FiniteDifference", "ExactDifferential", "InexactDifferential") if hasattr(SY, n)]
    x, t = Symbol("x", units.length), Symbol("t", units.time)
    for cls in wrappers:
        nm = cls.__name__
        accept = [(f"{nm}(x)/{nm}(t)", lambda: cls(x) / cls(t), units.length / units.time), (f"{nm}(x) + x", lambda: cls(x) + x, units.length),
                  (f"{nm}(x)*t", lambda: cls(x) * t, units.length * units.time), (f"{nm}({nm}(x)/t)", lambda: cls(cls(x) / t), units.length / units.time),
                  (f"sqrt({nm}(x)**2)", lambda: sp.sqrt(cls(x)**2), units.length), (f"Abs({nm}(x)) + 2*x", lambda: sp.Abs(cls(x)) + 2 * x, units.length),
                  # the statement lists no error for a dimensional function argument: inference accepts it, the result is dimensionless
                  (f"sin({nm}(x))", lambda: sp.sin(cls(x)), sp.physics.units.Dimension(1))]
        refuse = [(f"{nm}(x) + 1", lambda: cls(x) + 1), (f"{nm}(x) + t", lambda: cls(x) + t), (f"x**{nm}(t)", lambda: x**cls(t)),
                  (f"{nm}({nm}(x) + t)", lambda: cls(cls(x) + t))]
        for label, mk, want in accept:
            try:
                _e, d = infer(mk())
                if not dimsys_SI.equivalent_dims(d, want):
                    bad.append(f"{label}: inferred dimension {d}, expected {want}")
            except Exception as ex:
                bad.append(f"{label}: refused ({type(ex).__name__}: {str(ex)[:60]}), expected dimension {want}")
        for label, mk in refuse:
            try:
                _e, d = infer(mk())
                bad.append(f"{label}: accepted with dimension {d}; it is ill-formed (a {nm} of a length is a length)")
            except Exception:
                pass
    return bad


def concrete_specials(ctx):
    """infinite / NaN / literal-zero terms are excepted (finite enumeration of concrete trees; not solver-decided)"""
    from sympy.physics import units
    from symplyphysics import Quantity, Symbol
    from symplyphysics.core.dimensions import collect_expression_and_dimension
    from sympy.physics.units.systems.si import dimsys_SI
    t = Symbol("t", units.time)
    l = Symbol("l", units.length)
    cases = {"t+oo": (lambda: t + sp.oo, "time"), "t-oo": (lambda: t - sp.oo, "time"), "Add(t,nan)": (lambda: sp.Add(t, sp.nan, evaluate=False), "time"),
             "Max(0,t)": (lambda: sp.Max(0, t), "time"),              "Min(oo,l)": (lambda: sp.Min(sp.oo, l, evaluate=False), "length"), "t+Quantity(0 m)": (lambda: t + Quantity(0 * units.meter), "time"),
             "Quantity(0 m)+t": (lambda: Quantity(0 * units.meter, display_symbol="a_zero") + t, "time")}
    wb = wrapper_history()
    if wb:
        ctx.violation("C06:wrappers:own operand, own dimension, dimensioned leaf", "; ".join(wb)[:600], REPLAY_WRAPPERS)
    else:
        ctx.ob("wrappers keep the dimension inferred from their own operand (look-alike operands, wrap flags) and count as dimensioned leaves of larger expressions", "discharged", nontrivial=False)
    def value_at(expr_):
        from sympy.physics.units import Quantity as SymQ
        v = sp.sympify(expr_)
        v = v.xreplace({q_: q_.scale_factor for q_ in v.atoms(SymQ)})
        return v.subs({t: 3, l: 5})
    for name, (mk, want) in cases.items():
        try:
            src = mk()
            e, d = collect_expression_and_dimension(src)
            ok = dimsys_SI.equivalent_dims(d, getattr(units, want))
            why = f"dimension {d}"
            vin, vout = value_at(src), value_at(e)
            same = (vin == vout) or (vin is sp.nan and vout is sp.nan) or (vin.is_finite and vout.is_finite and abs(sp.N(vin - vout)) < 1e-12)
            if ok and not same:
                ok = False
                why = f"returned expression {e} has the value {vout} at t = 3, l = 5; the input has {vin}"
        except Exception as ex:
            ok = False
            why = f"raised {type(ex).__name__}: {ex}"
        if ok:
            ctx.ob(f"special:{name}", "discharged", nontrivial=False)
        else:
            ctx.violation(f"C06:special:{name}", f"{name}: {why}; the zero/infinite/NaN term is excepted, expected dimension {want}",
                          REPLAY_SPECIAL.format(name=name, want=want))
