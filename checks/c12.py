"""C12 - gradient, divergence and curl are the true operators in all three systems (engine S, jets).

The real operators run on GENERIC fields: undefined functions of the base
scalars.  SymPy carries the derivatives symbolically; Sym2SMT maps every
Derivative / Subs(Derivative) of an undefined function to a jet variable (all
jets are realised by polynomials, so "for all jets" = "for all smooth fields at
the point").  z3 decides the identities on the definedness domain.
"""
from __future__ import annotations

import itertools

import sympy as sp
import z3
from sympy.vector.scalar import BaseScalar

from vlib.par import pmap
from vlib.s2smt import Enc, Query, Unencodable, model_value

LEVEL = "other"
KINDS = ["CARTESIAN", "CYLINDRICAL", "SPHERICAL"]


def base_scalar_handler(enc, e):
    if isinstance(e, BaseScalar):
        return enc.var(("bs", str(e)), stem=str(e).replace(".", "_"))
    return None


def new_enc():
    enc = Enc()
    enc.extra_handlers.append(base_scalar_handler)
    return enc


def systems():
    """for every kind the SECOND system created in this process: an earlier one of the same kind has already been through all three
    operators, so anything the library might remember per system type would show"""
    from symplyphysics.core.coordinate_systems.coordinate_systems import CoordinateSystem
    from symplyphysics.core.fields.operators import gradient_operator, divergence_operator, curl_operator
    from symplyphysics.core.fields.scalar_field import ScalarField
    from symplyphysics.core.fields.vector_field import VectorField
    from symplyphysics.core.vectors.vectors import Vector
    out = {}
    for k in KINDS:
        first = CoordinateSystem(getattr(CoordinateSystem.System, k))
        a, b, c = first.coord_system.base_scalars()
        try:
            gradient_operator(ScalarField.from_expression(a * b + c, first))
            vf = VectorField.from_vector(Vector([a * b, b * c, a + c], first))
            divergence_operator(vf)
            curl_operator(vf)
        except Exception:
            pass
        out[k] = CoordinateSystem(getattr(CoordinateSystem.System, k))
    return out


def domain(enc, kind, cs):
    q = cs.coord_system.base_scalars()
    cons = []
    if kind == "CYLINDRICAL":
        cons.append(enc.tr(q[0]) > 0)
    if kind == "SPHERICAL":
        cons.append(enc.tr(q[0]) > 0)
        s, c = enc.sincos(q[2])
        cons += [s > 0, c != 0]     # 0 < phi < pi, and the code's 1/tan(phi) excludes pi/2
    return cons


def transform(kind, q):
    """Cartesian position of the point with curvilinear coordinates q (the library's convention: spherical = (r, azimuth, polar))"""
    if kind == "CARTESIAN":
        return list(q)
    if kind == "CYLINDRICAL":
        r, th, z = q
        return [r * sp.cos(th), r * sp.sin(th), z]
    r, th, ph = q
    return [r * sp.cos(th) * sp.sin(ph), r * sp.sin(th) * sp.sin(ph), r * sp.cos(ph)]


def local_basis(kind, q):
    """rows = unit vectors of the local orthonormal basis in Cartesian components (textbook)"""
    if kind == "CARTESIAN":
        return sp.eye(3)
    if kind == "CYLINDRICAL":
        _, th, _ = q
        return sp.Matrix([[sp.cos(th), sp.sin(th), 0], [-sp.sin(th), sp.cos(th), 0], [0, 0, 1]])
    _, th, ph = q
    return sp.Matrix([[sp.cos(th) * sp.sin(ph), sp.sin(th) * sp.sin(ph), sp.cos(ph)],
                      [-sp.sin(th), sp.cos(th), 0],
                      [sp.cos(th) * sp.cos(ph), sp.sin(th) * sp.cos(ph), -sp.sin(ph)]])


def jet(fn, idx, X):
    """first partial derivative of undefined fn wrt its idx-th argument, evaluated at X (as the Subs SymPy's chain rule produces)"""
    xi = sp.symbols("xi_1:4")
    return sp.Subs(sp.Derivative(fn(*xi), xi[idx]), xi, tuple(X))


def grad_signs_field(kind, qs, kpar):
    """(field, scale factors) -- the field contains sqrt(v**2) for a coordinate v that may be negative and for a free parameter"""
    a, b, c = qs
    if kind == "CARTESIAN":
        return a * sp.sqrt(c**2) + sp.sqrt(kpar**2) * b + sp.sqrt(b**2) * c, [1, 1, 1]
    if kind == "CYLINDRICAL":
        return a * sp.sqrt(c**2) + sp.sqrt(kpar**2) * a * sp.sin(b) + sp.sqrt(b**2), [1, a, 1]
    return sp.sqrt(b**2) * a + sp.sqrt(kpar**2) * a * sp.cos(c), [1, a * sp.sin(c), a]


def decide(enc, q, name, exprs, dom, out, sample=None):
    """every expression must be identically 0 on the domain"""
    try:
        ts = [enc.tr(sp.sympify(e)) for e in exprs]
    except Unencodable as e:
        out.append({"name": name, "verdict": "unencoded", "why": str(e)})
        return
    import time as _t
    t0 = _t.time()
    base = enc.assume + enc.side + enc.domain + dom
    twin, _ = q.check(base)                       # reachability twin: the domain is not vacuous
    r, m = q.check(base + [z3.Or([t != 0 for t in ts])])
    if twin != "sat" and r == "unsat":
        r = "vacuous-domain"
    rec = {"name": name, "verdict": {"unsat": "discharged", "sat": "candidate"}.get(r, "inconclusive"), "why": r, "queries": 2, "solver_s": _t.time() - t0}
    if r == "unsat" and sample:
        rec["sample"] = sample
    out.append(rec)


def work(item):
    from symplyphysics.core.fields.operators import gradient_operator, divergence_operator, curl_operator
    from symplyphysics.core.fields.scalar_field import ScalarField
    from symplyphysics.core.fields.vector_field import VectorField
    from symplyphysics.core.vectors.vectors import Vector
    what, kind, ncomp, timeout = item
    out = []
    cs = systems()[kind]
    qs = cs.coord_system.base_scalars()
    q = Query(None, timeout_ms=timeout)
    pad = lambda comps: list(comps) + [sp.S.Zero] * (3 - len(comps))
    try:
        if what == "curl_grad":
            enc = new_enc()
            F = sp.Function("F")
            f = ScalarField.from_expression(F(*qs), cs)
            g = gradient_operator(f)
            c = curl_operator(VectorField.from_vector(g)).apply_to_basis()
            decide(enc, q, f"curl(grad f)=0:{kind}", pad(c.components), domain(enc, kind, cs), out,
                   {"identity": "curl(grad f) = 0", "system": kind, "gradient": [str(x) for x in g.components]})
        elif what == "div_grad":
            # operators CHAINED through the library's own objects: the gradient must come back in the field's system (not in a default
            # one), so that div(grad f) is the textbook Laplacian of that system
            enc = new_enc()
            F = sp.Function("F")(*qs)
            f = ScalarField.from_expression(F, cs)
            g = gradient_operator(f)
            if g.coordinate_system is not cs:
                out.append({"name": f"grad f is expressed in the field's own system:{kind}", "verdict": "candidate",
                            "why": f"gradient of a {kind} field comes back in {g.coordinate_system.coord_system_type}"})
            else:
                out.append({"name": f"grad f is expressed in the field's own system:{kind}", "verdict": "discharged", "why": "", "trivial": True})
            got = divergence_operator(VectorField.from_vector(g))
            a, b, c = qs
            if kind == "CARTESIAN":
                want = sp.diff(F, a, 2) + sp.diff(F, b, 2) + sp.diff(F, c, 2)
            elif kind == "CYLINDRICAL":
                want = sp.diff(a * sp.diff(F, a), a) / a + sp.diff(F, b, 2) / a**2 + sp.diff(F, c, 2)
            else:        # (r, azimuth, polar)
                want = sp.diff(a**2 * sp.diff(F, a), a) / a**2 + sp.diff(sp.sin(c) * sp.diff(F, c), c) / (a**2 * sp.sin(c)) + sp.diff(F, b, 2) / (a**2 * sp.sin(c)**2)
            decide(enc, q, f"div(grad f) = textbook Laplacian:{kind}", [got - want], domain(enc, kind, cs), out,
                   {"identity": "div(grad f) = Laplacian", "system": kind})
        elif what in ("jac_div", "jac_curl"):
            # components given directly in the curvilinear basis -- coordinate-free constants (ncomp = 0: "uniform" fields) or generic
            # functions of the coordinates -- against the Cartesian operator of the same field: V(q) = sum_k F_k(q) e_k(q), Cartesian
            # derivatives through the inverse Jacobian of the coordinate transformation (textbook map X(q))
            enc = new_enc()
            comps = [sp.Symbol(f"c{i}", real=True) for i in range(3)] if ncomp == 0 else [sp.Function(f"F{i}")(*qs) for i in range(3)]
            vf = VectorField.from_vector(Vector(comps, cs))
            B = local_basis(kind, qs)
            V = [sum((comps[k] * B[k, j] for k in range(3)), sp.S.Zero) for j in range(3)]
            X = sp.Matrix(transform(kind, qs))
            Jinv = sp.simplify(X.jacobian(list(qs)).inv())           # d q_m / d x_i
            dV = [[sum((sp.diff(V[j], qs[m]) * Jinv[m, i] for m in range(3)), sp.S.Zero) for i in range(3)] for j in range(3)]      # dV[j][i] = dV_j/dx_i
            tagc = "constant components" if ncomp == 0 else "generic components"
            if what == "jac_div":
                got = divergence_operator(vf)
                want = dV[0][0] + dV[1][1] + dV[2][2]
                decide(enc, q, f"div = Cartesian div through the Jacobian:{kind}:{tagc}", [got - want], domain(enc, kind, cs), out,
                       {"identity": "curvilinear div of components given in the local basis", "system": kind, "components": tagc})
            else:
                got = pad(curl_operator(vf).apply_to_basis().components)
                ccurl = sp.Matrix([dV[2][1] - dV[1][2], dV[0][2] - dV[2][0], dV[1][0] - dV[0][1]])
                want = list(B * ccurl)
                decide(enc, q, f"curl = Cartesian curl through the Jacobian:{kind}:{tagc}", [a - b for a, b in zip(got, want)], domain(enc, kind, cs), out,
                       {"identity": "curvilinear curl of components given in the local basis", "system": kind, "components": tagc})
        elif what == "curl_at_point":
            # the curl is a FIELD: evaluated at a point it takes the value its basis form has there (all three systems, generic components,
            # a point with symbolic coordinates)
            from symplyphysics.core.points.cartesian_point import CartesianPoint
            from symplyphysics.core.points.cylinder_point import CylinderPoint
            from symplyphysics.core.points.sphere_point import SpherePoint
            enc = new_enc()
            Fs = [sp.Function(f"F{i}")(*qs) for i in range(3)]
            cu = curl_operator(VectorField.from_vector(Vector(Fs, cs)))
            ps = sp.symbols("p1:4", real=True)
            P = {"CARTESIAN": CartesianPoint, "CYLINDRICAL": CylinderPoint, "SPHERICAL": SpherePoint}[kind](*ps)
            got = pad(cu(P).components)
            want = [sp.sympify(c).subs(dict(zip(qs, ps)), simultaneous=True) for c in pad(cu.apply_to_basis().components)]
            dom = []
            if kind != "CARTESIAN":
                dom.append(enc.tr(ps[0]) > 0)
            if kind == "SPHERICAL":
                s_, c_ = enc.sincos(ps[2])
                dom += [s_ > 0, c_ != 0]
            leftovers = [str(b) for g_ in got for b in sp.sympify(g_).atoms(BaseScalar)]
            if leftovers:
                out.append({"name": f"curl F evaluated at a point = its basis form at that point:{kind}", "verdict": "candidate",
                            "why": f"the value at the point still contains the coordinate variables {sorted(set(leftovers))}"})
            else:
                decide(enc, q, f"curl F evaluated at a point = its basis form at that point:{kind}", [a - b for a, b in zip(got, want)], dom, out,
                       {"identity": "curl(F)(P) = curl(F) basis form with the coordinates of P", "system": kind})
        elif what == "grad_signs":
            # fields whose value depends on the SIGN of a coordinate or of a parameter (sqrt(z**2), sqrt(k**2)): the gradient is the
            # textbook one, (df/dq1, df/dq2 / h2, df/dq3 / h3), wherever those are non-zero -- in particular for negative values
            enc = new_enc()
            kpar = sp.Symbol("k", real=True)
            a, b, c = qs
            fe, h = grad_signs_field(kind, qs, kpar)
            got = pad(gradient_operator(ScalarField.from_expression(fe, cs)).components)
            want = [sp.diff(fe, v) / hv for v, hv in zip(qs, h)]
            nz = [enc.tr(v) != 0 for v in (kpar, b, c)]
            decide(enc, q, f"grad of a sign-sensitive field = textbook gradient:{kind}", [x - y for x, y in zip(got, want)], domain(enc, kind, cs) + nz, out,
                   {"identity": "grad of a field containing sqrt(q**2), sqrt(k**2)", "system": kind, "field": str(fe)})
        elif what == "div_curl":
            enc = new_enc()
            Fs = [sp.Function(f"F{i}")(*qs) for i in range(ncomp)]
            vf = VectorField.from_vector(Vector(Fs, cs))
            d = divergence_operator(curl_operator(vf))
            decide(enc, q, f"div(curl F)=0:{kind}:{ncomp}comp", [d], domain(enc, kind, cs), out,
                   {"identity": "div(curl F) = 0", "system": kind, "components": ncomp})
        elif what == "agree_grad":
            enc = new_enc()
            g = sp.Function("g")
            X = transform(kind, qs)
            f = ScalarField.from_expression(g(*X), cs)
            got = pad(gradient_operator(f).components)
            cart = sp.Matrix([jet(g, i, X) for i in range(3)])
            want = list(local_basis(kind, qs) * cart)
            decide(enc, q, f"grad agrees with Cartesian:{kind}", [a - b for a, b in zip(got, want)], domain(enc, kind, cs), out,
                   {"identity": "curvilinear grad = rotated Cartesian grad", "system": kind, "library": [str(x)[:120] for x in got]})
        elif what in ("agree_div", "agree_curl"):
            enc = new_enc()
            X = transform(kind, qs)
            G = [sp.Function(f"G{i}") for i in range(3)]
            B = local_basis(kind, qs)
            Gat = sp.Matrix([G[i](*X) for i in range(3)])
            comps_full = list(B * Gat)               # components along the local basis
            # a field given with ncomp components = the same field with the remaining local components identically zero
            comps = comps_full[:ncomp]
            vf = VectorField.from_vector(Vector(comps, cs))
            # Cartesian field that this padded curvilinear field represents: sum_k comps[k] * e_k
            cart_field = [sum((comps[k] * B[k, j] for k in range(ncomp)), sp.S.Zero) for j in range(3)]
            # its Cartesian derivatives via the chain rule on the jets: d/dx_j of comps is only available through jets of G, so
            # restrict the oracle comparison to ncomp == 3 (where cart_field == G exactly) and use div(curl)/padding laws otherwise
            if ncomp == 3:
                J = [[jet(G[i], j, X) for j in range(3)] for i in range(3)]   # J[i][j] = dG_i/dx_j
                if what == "agree_div":
                    got = divergence_operator(vf)
                    want = J[0][0] + J[1][1] + J[2][2]
                    decide(enc, q, f"div agrees with Cartesian:{kind}", [got - want], domain(enc, kind, cs), out,
                           {"identity": "curvilinear div = Cartesian div", "system": kind})
                else:
                    got = pad(curl_operator(vf).apply_to_basis().components)
                    ccurl = sp.Matrix([J[2][1] - J[1][2], J[0][2] - J[2][0], J[1][0] - J[0][1]])
                    want = list(B * ccurl)
                    decide(enc, q, f"curl agrees with Cartesian:{kind}", [a - b for a, b in zip(got, want)], domain(enc, kind, cs), out,
                           {"identity": "curvilinear curl = rotated Cartesian curl", "system": kind})
            else:
                # padding law: operator(field with ncomp components) == operator(same components + explicit zeros)
                Fs = [sp.Function(f"F{i}")(*qs) for i in range(ncomp)]
                short = VectorField.from_vector(Vector(Fs, cs))
                full = VectorField.from_vector(Vector(Fs + [sp.S.Zero] * (3 - ncomp), cs))
                if what == "agree_div":
                    decide(enc, q, f"div padding:{kind}:{ncomp}comp", [divergence_operator(short) - divergence_operator(full)], domain(enc, kind, cs), out)
                else:
                    a = pad(curl_operator(short).apply_to_basis().components)
                    b = pad(curl_operator(full).apply_to_basis().components)
                    decide(enc, q, f"curl padding:{kind}:{ncomp}comp", [x - y for x, y in zip(a, b)], domain(enc, kind, cs), out)
    except Exception as e:
        out.append({"name": f"{what}:{kind}:{ncomp}", "verdict": "candidate", "why": f"raised {type(e).__name__}: {e}"})
    for o in out:
        o["item"] = item[:3]
    return out


REPLAY = r'''
import sys, random
import sympy as sp
from checks import c12
from symplyphysics.core.fields.operators import gradient_operator, divergence_operator, curl_operator
from symplyphysics.core.fields.scalar_field import ScalarField
from symplyphysics.core.fields.vector_field import VectorField
from symplyphysics.core.vectors.vectors import Vector
what, kind, ncomp = {item!r}
cs = c12.systems()[kind]; qs = cs.coord_system.base_scalars()
x, y, z = sp.symbols("x y z")
pad = lambda c: list(c) + [sp.S.Zero] * (3 - len(c))
random.seed(3)
# concrete smooth (polynomial + trigonometric) fields; evaluated numerically at a generic point away from the singularities
def rnd_poly(vs):
    return sum(random.randint(-3, 3) * vs[i] * vs[j] for i in range(3) for j in range(i, 3)) + sum(random.randint(-3, 3) * v for v in vs) + sp.sin(vs[0]) * vs[1] + sp.cos(vs[2]) * vs[0]
pt = {{qs[0]: sp.Rational(7, 5), qs[1]: sp.Rational(2, 3), qs[2]: sp.Rational(4, 5)}}
def num(e): return sp.N(sp.sympify(e).doit().subs(pt), 30)
bad = False
X = c12.transform(kind, qs); B = c12.local_basis(kind, qs)
try:
    if what == "curl_grad":
        f = ScalarField.from_expression(rnd_poly(qs), cs)
        c = curl_operator(VectorField.from_vector(gradient_operator(f))).apply_to_basis()
        vals = [num(v) for v in pad(c.components)]; print("curl(grad f) =", vals); bad = any(abs(v) > 1e-20 for v in vals)
    elif what == "div_grad":
        fe = rnd_poly(qs); g = gradient_operator(ScalarField.from_expression(fe, cs))
        if g.coordinate_system is not cs: print("gradient comes back in", g.coordinate_system.coord_system_type); bad = True
        got = num(divergence_operator(VectorField.from_vector(g))); a, b, c = qs
        want = {{"CARTESIAN": lambda: sp.diff(fe, a, 2) + sp.diff(fe, b, 2) + sp.diff(fe, c, 2),
                "CYLINDRICAL": lambda: sp.diff(a * sp.diff(fe, a), a) / a + sp.diff(fe, b, 2) / a**2 + sp.diff(fe, c, 2),
                "SPHERICAL": lambda: sp.diff(a**2 * sp.diff(fe, a), a) / a**2 + sp.diff(sp.sin(c) * sp.diff(fe, c), c) / (a**2 * sp.sin(c)) + sp.diff(fe, b, 2) / (a**2 * sp.sin(c)**2)}}[kind]()
        print("div(grad f) =", got, " textbook Laplacian =", num(want)); bad = bad or abs(got - num(want)) > 1e-18
    elif what in ("jac_div", "jac_curl"):
        comps = [sp.Rational(3, 2), sp.Rational(-2, 3), sp.Rational(5, 4)] if ncomp == 0 else [rnd_poly(qs) for _ in range(3)]
        vf = VectorField.from_vector(Vector(comps, cs))
        V = [sum((comps[k] * B[k, j] for k in range(3)), sp.S.Zero) for j in range(3)]
        Jinv = sp.Matrix(X).jacobian(list(qs)).inv()
        dV = [[sum((sp.diff(V[j], qs[m]) * Jinv[m, i] for m in range(3)), sp.S.Zero) for i in range(3)] for j in range(3)]
        if what == "jac_div":
            got = num(divergence_operator(vf)); want = num(dV[0][0] + dV[1][1] + dV[2][2]); print("div", got, "Cartesian", want); bad = abs(got - want) > 1e-18
        else:
            got = [num(v) for v in pad(curl_operator(vf).apply_to_basis().components)]
            want = [num(v) for v in (B * sp.Matrix([dV[2][1] - dV[1][2], dV[0][2] - dV[2][0], dV[1][0] - dV[0][1]]))]
            print("curl", got, "Cartesian", want); bad = any(abs(a - b) > 1e-18 for a, b in zip(got, want))
    elif what == "curl_at_point":
        from symplyphysics.core.points.cartesian_point import CartesianPoint
        from symplyphysics.core.points.cylinder_point import CylinderPoint
        from symplyphysics.core.points.sphere_point import SpherePoint
        cu = curl_operator(VectorField.from_vector(Vector([rnd_poly(qs) for _ in range(3)], cs)))
        P = {{"CARTESIAN": CartesianPoint, "CYLINDRICAL": CylinderPoint, "SPHERICAL": SpherePoint}}[kind](*[pt[v] for v in qs])
        got = pad(cu(P).components); want = [num(v) for v in pad(cu.apply_to_basis().components)]
        print("curl(F)(P) =", got, " basis form at P =", want)
        bad = any(sp.sympify(g).free_symbols or sp.sympify(g).atoms(sp.vector.scalar.BaseScalar) or abs(sp.N(g, 30) - w) > 1e-20 for g, w in zip(got, want))
    elif what == "grad_signs":
        kpar = sp.Symbol("k", real=True)
        fe, h = c12.grad_signs_field(kind, qs, kpar)
        got_e = pad(gradient_operator(ScalarField.from_expression(fe, cs)).components)
        want_e = [sp.diff(fe, v) / hv for v, hv in zip(qs, h)]
        for kv in (sp.Rational(3, 2), sp.Rational(-3, 2)):
            for s2 in (1, -1):
                for s3 in (1, -1):
                    if kind == "SPHERICAL" and s3 < 0: continue       # the polar angle stays in (0, pi)
                    ptx = {{qs[0]: sp.Rational(7, 5), qs[1]: s2 * sp.Rational(2, 3), qs[2]: s3 * sp.Rational(4, 5), kpar: kv}}
                    g_ = [sp.N(sp.sympify(e).subs(ptx), 30) for e in got_e]; w_ = [sp.N(sp.sympify(e).subs(ptx), 30) for e in want_e]
                    if any(abs(x_ - y_) > 1e-20 for x_, y_ in zip(g_, w_)):
                        bad = True; print("grad at", ptx, "=", g_, "textbook", w_)
    elif what == "div_curl":
        vf = VectorField.from_vector(Vector([rnd_poly(qs) for _ in range(ncomp)], cs))
        v = num(divergence_operator(curl_operator(vf))); print("div(curl F) =", v); bad = abs(v) > 1e-20
    elif what == "agree_grad":
        gc = rnd_poly((x, y, z)); sub = dict(zip((x, y, z), X))
        got = [num(v) for v in pad(gradient_operator(ScalarField.from_expression(gc.subs(sub), cs)).components)]
        want = [num(v) for v in (B * sp.Matrix([sp.diff(gc, w).subs(sub) for w in (x, y, z)]))]
        print("grad", got, "want", want); bad = any(abs(a - b) > 1e-20 for a, b in zip(got, want))
    else:
        Gc = [rnd_poly((x, y, z)) for _ in range(3)]; sub = dict(zip((x, y, z), X))
        if ncomp == 3:
            comps = list(B * sp.Matrix([g.subs(sub) for g in Gc])); vf = VectorField.from_vector(Vector(comps, cs))
            if what == "agree_div":
                got = num(divergence_operator(vf)); want = num(sum(sp.diff(Gc[i], w) for i, w in enumerate((x, y, z))).subs(sub))
                print("div", got, "want", want); bad = abs(got - want) > 1e-20
            else:
                cc = sp.Matrix([sp.diff(Gc[2], y) - sp.diff(Gc[1], z), sp.diff(Gc[0], z) - sp.diff(Gc[2], x), sp.diff(Gc[1], x) - sp.diff(Gc[0], y)]).subs(sub)
                got = [num(v) for v in pad(curl_operator(vf).apply_to_basis().components)]; want = [num(v) for v in B * cc]
                print("curl", got, "want", want); bad = any(abs(a - b) > 1e-20 for a, b in zip(got, want))
        else:
            Fs = [rnd_poly(qs) for _ in range(ncomp)]
            short = VectorField.from_vector(Vector(Fs, cs)); full = VectorField.from_vector(Vector(Fs + [sp.S.Zero] * (3 - ncomp), cs))
            if what == "agree_div":
                a, b = num(divergence_operator(short)), num(divergence_operator(full)); print(a, b); bad = abs(a - b) > 1e-20
            else:
                a = [num(v) for v in pad(curl_operator(short).apply_to_basis().components)]; b = [num(v) for v in pad(curl_operator(full).apply_to_basis().components)]
                print(a, b); bad = any(abs(u - v) > 1e-20 for u, v in zip(a, b))
except Exception as e:
    print("raised", type(e).__name__, e); bad = True
if bad:
    print("REPRODUCED"); sys.exit(1)
'''


def run(ctx):
    timeout = 120000 if ctx.tier == "thorough" else 30000
    items = []
    for kind in KINDS:
        items.append(("curl_grad", kind, 3, timeout))
        items.append(("agree_grad", kind, 3, timeout))
        items.append(("div_grad", kind, 3, timeout))
        items.append(("curl_at_point", kind, 3, timeout))
        items.append(("grad_signs", kind, 3, timeout))
        for nc in (0, 3):
            items.append(("jac_div", kind, nc, timeout))
            items.append(("jac_curl", kind, nc, timeout))
        for n in range(4):
            items.append(("div_curl", kind, n, timeout))
            items.append(("agree_div", kind, n, timeout))
            items.append(("agree_curl", kind, n, timeout))
    ctx.explanation = (
        "Engine S with jets. Real gradient_operator/divergence_operator/curl_operator (through ScalarField.from_expression, "
        "VectorField.from_vector, apply_to_basis) run on generic undefined functions of the base scalars. (a) curl(grad f) = 0 and "
        "div(curl F) = 0 in all three systems and for 0..3 given components: the un-simplified SymPy results (polynomials in 1st/2nd "
        "order jets, r, sin/cos of the angles) are decided by z3. (b) agreement with Cartesian: the field is a generic Cartesian "
        "g(x,y,z) / G(x,y,z) composed with the coordinate transformation and projected on the local orthonormal basis (textbook rotation "
        "matrix = the oracle); SymPy's chain rule yields Subs(Derivative(g(xi..))) which are the Cartesian jets at the point; z3 decides "
        "equality with the rotated Cartesian gradient / divergence / curl. Fields with fewer than 3 components must equal the zero-padded field.")
    ctx.functions_encoded = ["operators.gradient_operator", "operators.divergence_operator", "operators.curl_operator", "ScalarField.from_expression",
                             "ScalarField.apply_to_basis", "VectorField.from_vector", "VectorField.apply_to_basis", "fields._subs_with_point"]
    ctx.bounds = ["all smooth fields (jets of order <= 2 are free Reals)", "domain: r > 0; spherical 0 < phi < pi, phi != pi/2 (the code divides by tan(phi))",
                  "component counts 0..3", f"z3 timeout {timeout} ms"]
    ctx.outside = ["coordinate singularities", "fields with more than 3 components (curl raises, divergence ignores extra components)"]
    ctx.trusted = ["z3 nlsat", "SymPy diff / chain rule", "textbook rotation matrices in checks/c12.py"]
    res = pmap(work, items, chunk=1)
    for rl in res:
        if isinstance(rl, dict):
            ctx.harness_errors.append(rl.get("error", "")[-300:])
            continue
        for r in rl:
            ctx.add_solver(r.get("queries", 0), r.get("solver_s", 0.0))
            if r["verdict"] == "discharged":
                ctx.ob(r["name"], "discharged", sample=r.get("sample"))
            elif r["verdict"] in ("unencoded", "inconclusive"):
                ctx.ob(r["name"], r["verdict"], r["why"])
            else:
                ctx.violation("C12:" + r["name"], f"{r['name']}: {r['why']}", REPLAY.format(item=tuple(r["item"])))
