"""C10 - Cartesian vector arithmetic (engine S).

The real functions of symplyphysics/core/vectors/arithmetics.py are executed
on vectors whose components are generic real SymPy symbols; the returned
expressions are translated to z3 Reals and each algebraic law is asserted
negated (QF_NRA).  The only control flow is over operand lengths (0..3) and
coordinate-system kinds, which are enumerated completely.
"""
from __future__ import annotations

import itertools

import sympy as sp
import z3

from vlib.s2smt import Enc, Query, Unencodable, model_value

LEVEL = "other"


def _syms(prefix, n):
    return [sp.Symbol(f"{prefix}{i}", real=True) for i in range(n)]


def pad(v, n=3):
    v = list(v)
    return v + [sp.S.Zero] * (n - len(v))


def run(ctx):
    from symplyphysics.core.vectors import arithmetics as A
    from symplyphysics.core.vectors.vectors import Vector
    from symplyphysics.core.coordinate_systems.coordinate_systems import CoordinateSystem, coordinates_transform

    ctx.explanation = (
        "Engine S: real add/subtract/scale/dot/magnitude/cross/unit/project/reject/equal_vectors run on "
        "vectors with generic real symbolic components; every law of the statement is asserted negated as a "
        "QF_NRA query over ALL component values, for every operand-length combination 0..3 (x0..3 x0..3); "
        "unsat = law holds for all reals. Refusals: all ordered pairs of coordinate-system kinds/instances enumerated.")
    ctx.functions_encoded = ["arithmetics." + f for f in (
        "_extend_two_vectors", "equal_vectors", "add_cartesian_vectors", "subtract_cartesian_vectors", "scale_vector",
        "dot_vectors", "vector_magnitude", "cross_cartesian_vectors", "vector_unit", "project_vector",
        "reject_cartesian_vector")] + ["vectors.Vector.__init__"]
    ctx.bounds = ["component counts 0..3 per operand (all combinations)", "components, scalars: all reals",
                  "z3 timeout 10 s (quick) / 60 s (thorough) per query"]
    ctx.outside = ["complex components", "4+ components"]
    ctx.trusted = ["z3 nlsat", "SymPy arithmetic on Add/Mul/Pow of symbols", "vlib.s2smt translator (self-validated)"]
    q = Query(ctx, timeout_ms=10000 if ctx.tier == "quick" else 60000)
    C = CoordinateSystem(CoordinateSystem.System.CARTESIAN)
    k, l = sp.symbols("k l", real=True)

    def vec(prefix, n):
        return Vector(_syms(prefix, n), C)

    # history: the same component tuples have already been through every operation in a cylindrical, a spherical and a second Cartesian
    # system of this process, so anything the library might remember per component tuple (rather than per vector and system) shows
    for kind in ("CYLINDRICAL", "SPHERICAL", "CARTESIAN"):
        other = CoordinateSystem(getattr(CoordinateSystem.System, kind))
        for n1, n2 in itertools.product(range(4), repeat=2):
            for pfx in (("a", "b"), ("b", "a"), ("c", "a")):
                u, v = Vector(_syms(pfx[0], n1), other), Vector(_syms(pfx[1], n2), other)
                for f in (A.vector_magnitude, A.vector_unit, lambda x: A.scale_vector(k, x), lambda x: A.dot_vectors(x, v), lambda x: A.add_cartesian_vectors(x, v),
                          lambda x: A.cross_cartesian_vectors(x, v), lambda x: A.project_vector(x, v), lambda x: A.equal_vectors(x, v)):
                    try:
                        f(u)
                    except Exception:
                        pass

    def same(name, lhs_vec, rhs_vec, enc=None, extra=(), key=None, build=None):
        """lhs/rhs: lists of sympy exprs (vector components) or scalars"""
        lc = pad(lhs_vec) if isinstance(lhs_vec, (list, tuple)) else [lhs_vec]
        rc = pad(rhs_vec) if isinstance(rhs_vec, (list, tuple)) else [rhs_vec]
        if len(lc) != len(rc):
            report(name, "component count differs", build)
            return
        enc = enc or Enc()
        try:
            diffs = [enc.tr(a) != enc.tr(b) for a, b in zip(lc, rc)]
        except Unencodable as e:
            ctx.ob(name, "unencoded", str(e))
            return
        cons = enc.assume + enc.side + enc.domain + list(extra) + [z3.Or(diffs)]
        r, m = q.check(cons)
        if r == "unsat":
            ctx.ob(name, "discharged", sample={"obligation": name, "lhs": [str(x) for x in lc][:3],
                                                "rhs": [str(x) for x in rc][:3], "verdict": "unsat"})
        elif r == "sat":
            vals = {}
            for kk, v in enc.vars.items():
                if kk[0] == "sym":
                    vals[str(kk[1])] = str(model_value(m, v))
            report(name, f"model {vals}", build, vals)
        else:
            ctx.ob(name, "inconclusive", "unknown")

    def report(name, why, build, vals=None):
        script = REPLAY_HEAD + f"vals = {vals!r}\n" + (build or "") + REPLAY_TAIL
        ctx.violation(f"C10:{name}", f"law fails: {why}", script)

    lens = list(itertools.product(range(4), repeat=2))
    for na, nb in lens:
        a, b = vec("a", na), vec("b", nb)
        tag = f"[{na},{nb}]"
        B = f"na,nb={na},{nb}\n"
        try:
            ab = A.add_cartesian_vectors(a, b)
            ba = A.add_cartesian_vectors(b, a)
            same("add_comm" + tag, list(ab.components), list(ba.components), build=B + "law='add_comm'\n")
            # result equals padded component sum (oracle from the statement: missing = 0)
            same("add_def" + tag, list(ab.components),
                 [x + y for x, y in zip(pad(a.components), pad(b.components))][:max(na, nb)], build=B + "law='add_def'\n")
            sub = A.subtract_cartesian_vectors(a, b)
            back = A.add_cartesian_vectors(sub, b)
            same("sub_inverse" + tag, list(back.components), list(a.components), build=B + "law='sub_inverse'\n")
            s1 = A.scale_vector(k, ab)
            s2 = A.add_cartesian_vectors(A.scale_vector(k, a), A.scale_vector(k, b))
            same("scale_distrib_vec" + tag, list(s1.components), list(s2.components), build=B + "law='scale_distrib_vec'\n")
            d1, d2 = A.dot_vectors(a, b), A.dot_vectors(b, a)
            same("dot_symm" + tag, d1, d2, build=B + "law='dot_symm'\n")
            same("dot_def" + tag, d1, sum(x * y for x, y in zip(pad(a.components), pad(b.components))), build=B + "law='dot_def'\n")
            same("dot_scale" + tag, A.dot_vectors(A.scale_vector(k, a), b), k * d1, build=B + "law='dot_scale'\n")
            cr = A.cross_cartesian_vectors(a, b)
            crb = A.cross_cartesian_vectors(b, a)
            same("cross_antisym" + tag, list(cr.components), [-x for x in crb.components], build=B + "law='cross_antisym'\n")
            same("cross_orth_a" + tag, A.dot_vectors(cr, a), sp.S.Zero, build=B + "law='cross_orth_a'\n")
            same("cross_orth_b" + tag, A.dot_vectors(cr, b), sp.S.Zero, build=B + "law='cross_orth_b'\n")
            same("cross_scale" + tag, list(A.cross_cartesian_vectors(A.scale_vector(k, a), b).components),
                 [k * x for x in cr.components], build=B + "law='cross_scale'\n")
            # Lagrange
            enc = Enc()
            ma, mb, mc = A.vector_magnitude(a), A.vector_magnitude(b), A.vector_magnitude(cr)
            same("lagrange" + tag, mc**2, ma**2 * mb**2 - d1**2, enc=enc, build=B + "law='lagrange'\n")
            # right-handedness (fixes the overall sign of the cross product): e_x x e_y = e_z
            # projection / rejection
            if nb > 0:
                enc = Enc()
                pr = A.project_vector(a, b)
                rj = A.reject_cartesian_vector(a, b)
                rec = A.add_cartesian_vectors(pr, rj)
                bb = enc.tr(A.dot_vectors(b, b))
                same("proj_plus_rej" + tag, list(rec.components), pad(a.components)[:max(na, nb)] if False else pad(a.components),
                     enc=enc, extra=[bb != 0], build=B + "law='proj_plus_rej'\n")
                enc = Enc()
                bb = enc.tr(A.dot_vectors(b, b))
                same("rej_orth" + tag, A.dot_vectors(rj, b), sp.S.Zero, enc=enc, extra=[bb != 0], build=B + "law='rej_orth'\n")
                enc = Enc()
                bb = enc.tr(A.dot_vectors(b, b))
                # projection is parallel to target: pr x b = 0
                same("proj_parallel" + tag, list(A.cross_cartesian_vectors(pr, b).components), [0, 0, 0], enc=enc,
                     extra=[bb != 0], build=B + "law='proj_parallel'\n")
        except Exception as e:  # real code raised on valid input
            report("exception" + tag, f"{type(e).__name__}: {e}", B + "law='noexc'\n")

    for na in range(4):
        a = vec("a", na)
        tag = f"[{na}]"
        B = f"na,nb={na},0\n"
        try:
            enc = Enc()
            mag = A.vector_magnitude(a)
            aa = A.dot_vectors(a, a)
            same("mag_sq" + tag, mag**2, aa, enc=enc, build=B + "law='mag_sq'\n")
            # complex components x_j + i y_j ("arbitrary symbolic or numeric components"): |v|^2 is still the self dot product v.v
            if na > 0:
                xs_ = sp.symbols(f"x0:{na}", real=True)
                ys_ = sp.symbols(f"y0:{na}", real=True)
                vc = Vector([x + sp.I * y for x, y in zip(xs_, ys_)], C)
                diff_c = sp.expand_complex(sp.expand(A.vector_magnitude(vc)**2 - A.dot_vectors(vc, vc)))
                same("mag_sq_complex" + tag, list(diff_c.as_real_imag()), [sp.S.Zero, sp.S.Zero], build=B + "law='mag_sq_complex'\n")
            # magnitude nonnegative
            enc = Enc()
            mt = enc.tr(mag)
            r, m = q.check(enc.assume + enc.side + enc.domain + [mt < 0])
            if r == "unsat":
                ctx.ob("mag_nonneg" + tag, "discharged")
            elif r == "sat":
                report("mag_nonneg" + tag, "negative magnitude", B + "law='mag_nonneg'\n", {})
            else:
                ctx.ob("mag_nonneg" + tag, "inconclusive", "unknown")
            same("scale_add" + tag, list(A.scale_vector(k + l, a).components),
                 list(A.add_cartesian_vectors(A.scale_vector(k, a), A.scale_vector(l, a)).components), build=B + "law='scale_add'\n")
            same("scale_mul" + tag, list(A.scale_vector(k * l, a).components),
                 list(A.scale_vector(k, A.scale_vector(l, a)).components), build=B + "law='scale_mul'\n")
            same("scale_def" + tag, list(A.scale_vector(k, a).components), [k * x for x in a.components], build=B + "law='scale_def'\n")
            if na > 0:
                enc = Enc()
                u = A.vector_unit(a)
                aat = enc.tr(aa)
                same("unit_mag" + tag, A.vector_magnitude(u), sp.S.One, enc=enc, extra=[aat != 0], build=B + "law='unit_mag'\n")
                # unit vector is a positive multiple of a: u * |a| = a
                enc = Enc()
                aat = enc.tr(aa)
                same("unit_dir" + tag, [x * mag for x in u.components], list(a.components), enc=enc, extra=[aat != 0],
                     build=B + "law='unit_dir'\n")
        except Exception as e:
            report("exception" + tag, f"{type(e).__name__}: {e}", B + "law='noexc'\n")

    # every vector-valued result lives in the operands' coordinate system (all operand lengths, also the degenerate ones)
    for na, nb in lens:
        a, b = vec("a", na), vec("b", nb)
        for opn, f in (("add", lambda: A.add_cartesian_vectors(a, b)), ("subtract", lambda: A.subtract_cartesian_vectors(a, b)), ("cross", lambda: A.cross_cartesian_vectors(a, b)),
                       ("scale", lambda: A.scale_vector(k, a)), ("project", lambda: A.project_vector(a, b)), ("reject", lambda: A.reject_cartesian_vector(a, b)),
                       ("unit", lambda: A.vector_unit(a)), ("add3", lambda: A.add_cartesian_vectors(a, b, a))):
            nm = f"result_system[{opn},{na},{nb}]"
            try:
                res = f()
            except Exception:
                ctx.ob(nm, "discharged", nontrivial=False)  # whether it may raise is the business of the other obligations
                continue
            if res.coordinate_system is C:
                ctx.ob(nm, "discharged", nontrivial=False)
            else:
                report(nm, f"the result of {opn} is not in the operands' coordinate system", f"na,nb={na},{nb}\nlaw='result_system'\n", {})
    # no operation modifies its operands (vectors are mutable objects; results must be new ones)
    for na, nb in ((3, 3), (2, 3), (3, 1), (1, 1)):
        a, b = vec("a", na), vec("b", nb)
        before = (list(a.components), list(b.components))
        for opn, f in (("add", A.add_cartesian_vectors), ("subtract", A.subtract_cartesian_vectors), ("dot", A.dot_vectors), ("cross", A.cross_cartesian_vectors),
                       ("scale", lambda x, y: A.scale_vector(k, x)), ("magnitude", lambda x, y: A.vector_magnitude(x)), ("project", A.project_vector),
                       ("reject", A.reject_cartesian_vector), ("unit", lambda x, y: A.vector_unit(x)), ("equal", A.equal_vectors)):
            try:
                f(a, b)
            except Exception:
                pass
            now = (list(a.components), list(b.components))
            nm = f"operands_unchanged[{opn},{na},{nb}]"
            if now == before:
                ctx.ob(nm, "discharged", nontrivial=False)
            else:
                report(nm, f"{opn} changed its operands from {before} to {now}", f"na,nb={na},{nb}\nlaw='operands_unchanged'\n", {})
                a, b = vec("a", na), vec("b", nb)
                before = (list(a.components), list(b.components))
    # associativity and bilinearity with three operands
    triples = list(itertools.product(range(4), repeat=3)) if ctx.tier == "thorough" else \
        [(3, 3, 3), (2, 3, 1), (1, 2, 3), (3, 1, 2), (0, 3, 2), (3, 0, 1), (2, 2, 0), (1, 1, 1), (3, 2, 3), (0, 0, 0)]
    for na, nb, nc in triples:
        a, b, c = vec("a", na), vec("b", nb), vec("c", nc)
        tag = f"[{na},{nb},{nc}]"
        B = f"na,nb,nc={na},{nb},{nc}\n"
        try:
            l1 = A.add_cartesian_vectors(A.add_cartesian_vectors(a, b), c)
            l2 = A.add_cartesian_vectors(a, A.add_cartesian_vectors(b, c))
            l3 = A.add_cartesian_vectors(a, b, c)
            same("add_assoc" + tag, list(l1.components), list(l2.components), build=B + "law='add_assoc'\n")
            same("add_nary" + tag, list(l3.components), list(l1.components), build=B + "law='add_nary'\n")
            same("sub_nary" + tag, list(A.subtract_cartesian_vectors(a, b, c).components),
                 [x - y - z for x, y, z in zip(pad(a.components), pad(b.components), pad(c.components))], build=B + "law='sub_nary'\n")
            same("dot_bilinear" + tag, A.dot_vectors(A.add_cartesian_vectors(a, b), c),
                 A.dot_vectors(a, c) + A.dot_vectors(b, c), build=B + "law='dot_bilinear'\n")
            same("cross_bilinear_l" + tag, list(A.cross_cartesian_vectors(A.add_cartesian_vectors(a, b), c).components),
                 list(A.add_cartesian_vectors(A.cross_cartesian_vectors(a, c), A.cross_cartesian_vectors(b, c)).components),
                 build=B + "law='cross_bilinear_l'\n")
            same("cross_bilinear_r" + tag, list(A.cross_cartesian_vectors(c, A.add_cartesian_vectors(a, b)).components),
                 list(A.add_cartesian_vectors(A.cross_cartesian_vectors(c, a), A.cross_cartesian_vectors(c, b)).components),
                 build=B + "law='cross_bilinear_r'\n")
            # orientation: (a x b) . c = det[a;b;c]
            pa, pb, pc = pad(a.components), pad(b.components), pad(c.components)
            det = sp.Matrix([pa, pb, pc]).det()
            same("cross_orientation" + tag, A.dot_vectors(A.cross_cartesian_vectors(a, b), c), det, build=B + "law='cross_orientation'\n")
        except Exception as e:
            report("exception" + tag, f"{type(e).__name__}: {e}", B + "law='noexc3'\n")

    # equal_vectors: agrees with padded component equality (on instances z3 chooses: zero padding, a single differing slot)
    for na, nb in lens:
        a = vec("a", na)
        comps = pad(a.components)[:nb] if nb <= na else list(a.components) + [sp.S.Zero] * (nb - na)
        b = Vector(comps, C)
        truth = all(x == 0 for x in pad(a.components)[nb:]) if nb < na else True
        try:
            got = A.equal_vectors(a, b)
        except Exception as e:
            got = f"{type(e).__name__}"
        if got == truth:
            ctx.ob(f"equal_vectors_pad[{na},{nb}]", "discharged", nontrivial=False)
        else:
            report(f"equal_vectors_pad[{na},{nb}]", f"equal_vectors={got}, padded truth={truth}", f"na,nb={na},{nb}\nlaw='equal_pad'\n")

    # refusals -----------------------------------------------------------
    kinds = [CoordinateSystem.System.CARTESIAN, CoordinateSystem.System.CYLINDRICAL, CoordinateSystem.System.SPHERICAL]
    systems = {}
    for kd in kinds:
        systems[(kd, 0)] = CoordinateSystem(kd)
        systems[(kd, 1)] = CoordinateSystem(kd)
    cart_t = coordinates_transform(C, CoordinateSystem.System.CYLINDRICAL)
    systems[(CoordinateSystem.System.CYLINDRICAL, 2)] = cart_t
    # systems of another kind that WRAP THE SAME inner SymPy system as Cartesian #0: still different coordinate systems
    inner = systems[(CoordinateSystem.System.CARTESIAN, 0)].coord_system
    systems[(CoordinateSystem.System.CYLINDRICAL, 3)] = CoordinateSystem(CoordinateSystem.System.CYLINDRICAL, inner)
    systems[(CoordinateSystem.System.SPHERICAL, 3)] = CoordinateSystem(CoordinateSystem.System.SPHERICAL, inner)
    ops2 = {"add": A.add_cartesian_vectors, "subtract": A.subtract_cartesian_vectors, "dot": A.dot_vectors,
            "cross": A.cross_cartesian_vectors, "equal": A.equal_vectors, "reject": A.reject_cartesian_vector}
    n_ref = 0
    for ((k1, s1), (k2, s2)), (n1, n2) in itertools.product(itertools.product(systems.items(), repeat=2), itertools.product(range(4), repeat=2)):
        v1 = Vector(_syms("a", n1), s1)
        v2 = Vector(_syms("b", n2), s2)
        mixed = s1 is not s2
        for nm, f in ops2.items():
            must_refuse = mixed or (nm in ("add", "subtract", "cross", "reject") and k1[0] != CoordinateSystem.System.CARTESIAN)
            if not must_refuse:
                continue
            n_ref += 1
            name = f"refuse_{nm}[{k1[0].name}{k1[1]}:{n1},{k2[0].name}{k2[1]}:{n2}]"
            try:
                f(v1, v2)
                refused = False
            except (TypeError, ValueError):
                refused = True
            if refused:
                ctx.ob(name, "discharged", nontrivial=False)
            else:
                script = REPLAY_REFUSE.format(k1=k1[0].name, i1=k1[1], k2=k2[0].name, i2=k2[1], op=nm, n1=n1, n2=n2)
                ctx.violation("C10:" + name, f"{nm} accepted vectors of systems {k1[0].name}#{k1[1]} (length {n1}) and {k2[0].name}#{k2[1]} (length {n2})", script)
    # variadic sums and differences: an offending operand in ANY position must be refused
    Cs = systems[(CoordinateSystem.System.CARTESIAN, 0)]
    for op_nm, f in (("add", A.add_cartesian_vectors), ("subtract", A.subtract_cartesian_vectors)):
        for (kb, sb) in systems.items():
            if sb is Cs:
                continue
            for n_ops in (3, 4):
                for pos in range(n_ops):
                    vs = [Vector(_syms(f"p{i}", 2), sb if i == pos else Cs) for i in range(n_ops)]
                    n_ref += 1
                    name = f"refuse_{op_nm}_variadic[{n_ops} operands, #{pos} in {kb[0].name}{kb[1]}]"
                    try:
                        f(*vs)
                        refused = False
                    except (TypeError, ValueError):
                        refused = True
                    if refused:
                        ctx.ob(name, "discharged", nontrivial=False)
                    else:
                        ctx.violation("C10:" + name, f"{op_nm} of {n_ops} vectors accepted operand #{pos} given in system {kb[0].name}#{kb[1]} among Cartesian#0 operands",
                                      REPLAY_VARIADIC.format(op=op_nm, k=kb[0].name, i=kb[1], n=n_ops, pos=pos))
    ctx.extra["refusal_combinations"] = n_ref
    ctx.extra["exhaustive_over_lengths"] = True


REPLAY_HEAD = r'''
import sys, itertools
import sympy as sp
from fractions import Fraction
from symplyphysics.core.vectors import arithmetics as A
from symplyphysics.core.vectors.vectors import Vector
from symplyphysics.core.coordinate_systems.coordinate_systems import CoordinateSystem
C = CoordinateSystem(CoordinateSystem.System.CARTESIAN)
nc = 0
'''

REPLAY_TAIL = r'''
import random
def val(name, i):
    key = f"{name}{i}"
    if vals and key in vals:
        return sp.Rational(vals[key])
    return sp.Rational(random.randint(-5, 5), random.randint(1, 4))
def pad(v, n=3):
    v = list(v); return v + [sp.S.Zero]*(n-len(v))
def close(x, y):
    x = sp.N(x, 30); y = sp.N(y, 30)
    return abs(x - y) <= sp.Float("1e-18") * (1 + abs(x) + abs(y))
def vclose(u, v):
    return all(close(x, y) for x, y in zip(pad(u), pad(v)))
bad = None
random.seed(1)
for attempt in range(40 if not vals else 1):
    a = Vector([val("a", i) for i in range(na)], C)
    b = Vector([val("b", i) for i in range(nb)], C)
    c = Vector([val("c", i) for i in range(nc)], C)
    k = sp.Rational(vals["k"]) if vals and "k" in vals else sp.Rational(3, 2)
    l = sp.Rational(vals["l"]) if vals and "l" in vals else sp.Rational(-2, 3)
    pa, pb, pc = pad(a.components), pad(b.components), pad(c.components)
    # history: the same component tuples in other coordinate systems first
    for kind in ("CYLINDRICAL", "SPHERICAL", "CARTESIAN"):
        O = CoordinateSystem(getattr(CoordinateSystem.System, kind))
        for u in (a, b, c):
            uo = Vector(list(u.components), O)
            for f in (A.vector_magnitude, A.vector_unit, lambda x: A.scale_vector(k, x), lambda x: A.dot_vectors(x, x), lambda x: A.add_cartesian_vectors(x, x)):
                try: f(uo)
                except Exception: pass
    dot = lambda u, v: sum(x*y for x, y in zip(u, v))
    crs = lambda u, v: [u[1]*v[2]-u[2]*v[1], u[2]*v[0]-u[0]*v[2], u[0]*v[1]-u[1]*v[0]]
    try:
        if law in ('add_comm', 'add_def'):
            ok = vclose(A.add_cartesian_vectors(a, b).components, [x+y for x, y in zip(pa, pb)]) and vclose(A.add_cartesian_vectors(b, a).components, [x+y for x, y in zip(pa, pb)])
        elif law == 'sub_inverse':
            ok = vclose(A.add_cartesian_vectors(A.subtract_cartesian_vectors(a, b), b).components, pa)
        elif law == 'scale_distrib_vec':
            ok = vclose(A.scale_vector(k, A.add_cartesian_vectors(a, b)).components, [k*(x+y) for x, y in zip(pa, pb)])
        elif law in ('dot_symm', 'dot_def'):
            ok = close(A.dot_vectors(a, b), dot(pa, pb)) and close(A.dot_vectors(b, a), dot(pa, pb))
        elif law == 'dot_scale':
            ok = close(A.dot_vectors(A.scale_vector(k, a), b), k*dot(pa, pb))
        elif law in ('cross_antisym', 'cross_orth_a', 'cross_orth_b', 'lagrange'):
            ok = vclose(A.cross_cartesian_vectors(a, b).components, crs(pa, pb)) and vclose(A.cross_cartesian_vectors(b, a).components, crs(pb, pa)) \
                 and close(A.vector_magnitude(A.cross_cartesian_vectors(a, b))**2, dot(crs(pa, pb), crs(pa, pb))) \
                 and close(A.vector_magnitude(a)**2, dot(pa, pa)) and close(A.vector_magnitude(b)**2, dot(pb, pb))
        elif law == 'cross_scale':
            ok = vclose(A.cross_cartesian_vectors(A.scale_vector(k, a), b).components, [k*x for x in crs(pa, pb)])
        elif law in ('proj_plus_rej', 'rej_orth', 'proj_parallel'):
            if dot(pb, pb) == 0: continue
            pr = [dot(pa, pb)/dot(pb, pb)*x for x in pb]
            ok = vclose(A.project_vector(a, b).components, pr) and vclose(A.reject_cartesian_vector(a, b).components, [x-y for x, y in zip(pa, pr)])
        elif law == 'result_system':
            ok = True
            for f in (lambda: A.add_cartesian_vectors(a, b), lambda: A.subtract_cartesian_vectors(a, b), lambda: A.cross_cartesian_vectors(a, b), lambda: A.scale_vector(k, a),
                      lambda: A.project_vector(a, b), lambda: A.reject_cartesian_vector(a, b), lambda: A.vector_unit(a), lambda: A.add_cartesian_vectors(a, b, a)):
                try: res = f()
                except Exception: continue
                if res.coordinate_system is not C:
                    print("result in", res.coordinate_system, "operands in", C); ok = False
        elif law == 'operands_unchanged':
            import copy
            ca, cb = list(a.components), list(b.components)
            for f in (A.add_cartesian_vectors, A.subtract_cartesian_vectors, A.dot_vectors, A.cross_cartesian_vectors, lambda x, y: A.scale_vector(k, x),
                      lambda x, y: A.vector_magnitude(x), A.project_vector, A.reject_cartesian_vector, lambda x, y: A.vector_unit(x), A.equal_vectors):
                try: f(a, b)
                except Exception: pass
            ok = list(a.components) == ca and list(b.components) == cb
        elif law == 'mag_sq_complex':
            vc = Vector([x + sp.I * sp.Rational(j + 2, 3) for j, x in enumerate(a.components)], C)
            d_ = sp.N(sp.expand(A.vector_magnitude(vc)**2 - A.dot_vectors(vc, vc)), 30)
            print("complex components", vc.components, "|v|^2 - v.v =", d_); ok = abs(d_) < 1e-20
        elif law in ('mag_sq', 'mag_nonneg'):
            m = A.vector_magnitude(a); ok = close(m**2, dot(pa, pa)) and sp.N(m) >= 0
        elif law == 'scale_add':
            ok = vclose(A.scale_vector(k+l, a).components, [(k+l)*x for x in pa])
        elif law in ('scale_mul', 'scale_def'):
            ok = vclose(A.scale_vector(k*l, a).components, [k*l*x for x in pa]) and vclose(A.scale_vector(k, A.scale_vector(l, a)).components, [k*l*x for x in pa])
        elif law in ('unit_mag', 'unit_dir'):
            if dot(pa, pa) == 0: continue
            m = sp.sqrt(dot(pa, pa)); ok = vclose(A.vector_unit(a).components, [x/m for x in pa])
        elif law in ('add_assoc', 'add_nary'):
            s = [x+y+z for x, y, z in zip(pa, pb, pc)]
            ok = vclose(A.add_cartesian_vectors(a, b, c).components, s) and vclose(A.add_cartesian_vectors(A.add_cartesian_vectors(a, b), c).components, s) and vclose(A.add_cartesian_vectors(a, A.add_cartesian_vectors(b, c)).components, s)
        elif law == 'sub_nary':
            ok = vclose(A.subtract_cartesian_vectors(a, b, c).components, [x-y-z for x, y, z in zip(pa, pb, pc)])
        elif law == 'dot_bilinear':
            ok = close(A.dot_vectors(A.add_cartesian_vectors(a, b), c), dot(pa, pc)+dot(pb, pc))
        elif law in ('cross_bilinear_l', 'cross_bilinear_r', 'cross_orientation'):
            ab = [x+y for x, y in zip(pa, pb)]
            ok = vclose(A.cross_cartesian_vectors(A.add_cartesian_vectors(a, b), c).components, crs(ab, pc)) and vclose(A.cross_cartesian_vectors(c, A.add_cartesian_vectors(a, b)).components, crs(pc, ab)) \
                 and close(A.dot_vectors(A.cross_cartesian_vectors(a, b), c), dot(crs(pa, pb), pc))
        elif law == 'equal_pad':
            sa = [sp.Symbol(f"a{i}", real=True) for i in range(na)]
            va = Vector(sa, C); comps = (sa + [sp.S.Zero]*3)[:nb]
            truth = all(x == 0 for x in pad(sa)[nb:]) if nb < na else True
            ok = A.equal_vectors(va, Vector(comps, C)) == truth
        else:
            # 'noexc': any of the operations raising on valid Cartesian input
            A.add_cartesian_vectors(a, b); A.subtract_cartesian_vectors(a, b); A.dot_vectors(a, b); cr_ = A.cross_cartesian_vectors(a, b); A.vector_magnitude(a)
            A.scale_vector(k, a)
            # results are operands of further operations
            A.dot_vectors(cr_, a); A.dot_vectors(cr_, b); A.add_cartesian_vectors(cr_, a); A.cross_cartesian_vectors(A.scale_vector(k, a), b); A.vector_magnitude(cr_)
            A.add_cartesian_vectors(A.subtract_cartesian_vectors(a, b), b); A.dot_vectors(A.scale_vector(k, a), b)
            if dot(pb, pb) != 0:
                pr_ = A.project_vector(a, b); rj_ = A.reject_cartesian_vector(a, b); A.add_cartesian_vectors(pr_, rj_); A.dot_vectors(rj_, b); A.cross_cartesian_vectors(pr_, b)
            if dot(pa, pa) != 0:
                A.vector_magnitude(A.vector_unit(a))
            if law == 'noexc3':
                A.add_cartesian_vectors(a, b, c); A.subtract_cartesian_vectors(a, b, c)
            ok = True
    except Exception as e:
        print("exception", type(e).__name__, e); ok = False
    if not ok:
        bad = (a.components, b.components, c.components); break
if bad:
    print("REPRODUCED: law", law, "fails for a,b,c =", bad)
    sys.exit(1)
print("law holds at the replayed point(s)")
'''

REPLAY_VARIADIC = r'''
import sys
import sympy as sp
from symplyphysics.core.vectors import arithmetics as A
from symplyphysics.core.vectors.vectors import Vector
from symplyphysics.core.coordinate_systems.coordinate_systems import CoordinateSystem, coordinates_transform
S = CoordinateSystem.System
C = CoordinateSystem(S.CARTESIAN)
k, i, n, pos = "{k}", {i}, {n}, {pos}
other = coordinates_transform(C, getattr(S, k)) if i == 2 else (CoordinateSystem(getattr(S, k), C.coord_system) if i == 3 else CoordinateSystem(getattr(S, k)))
vs = [Vector(sp.symbols(f"p{{j}}_0:2", real=True), other if j == pos else C) for j in range(n)]
f = dict(add=A.add_cartesian_vectors, subtract=A.subtract_cartesian_vectors)["{op}"]
try:
    r = f(*vs)
except (TypeError, ValueError) as e:
    print("refused:", e); sys.exit(0)
print("REPRODUCED: {op} of", n, "operands accepted operand", pos, "given in another system:", getattr(r, "components", r)); sys.exit(1)
'''

REPLAY_REFUSE = r'''
import sys
import sympy as sp
from symplyphysics.core.vectors import arithmetics as A
from symplyphysics.core.vectors.vectors import Vector
from symplyphysics.core.coordinate_systems.coordinate_systems import CoordinateSystem, coordinates_transform
S = CoordinateSystem.System
C = CoordinateSystem(S.CARTESIAN)
SYS = {{}}
def mk(kind, i):
    if (kind, i) not in SYS:
        if i == 2: SYS[(kind, i)] = coordinates_transform(C, getattr(S, kind))
        elif i == 3: SYS[(kind, i)] = CoordinateSystem(getattr(S, kind), mk("CARTESIAN", 0).coord_system)     # same inner SymPy system as Cartesian #0
        else: SYS[(kind, i)] = CoordinateSystem(getattr(S, kind))
    return SYS[(kind, i)]
s1 = mk("{k1}", {i1}); s2 = mk("{k2}", {i2})
v1 = Vector(sp.symbols("a0:{n1}", real=True), s1); v2 = Vector(sp.symbols("b0:{n2}", real=True), s2)
ops = dict(add=A.add_cartesian_vectors, subtract=A.subtract_cartesian_vectors, dot=A.dot_vectors, cross=A.cross_cartesian_vectors, equal=A.equal_vectors, reject=A.reject_cartesian_vector)
try:
    r = ops["{op}"](v1, v2)
except (TypeError, ValueError) as e:
    print("refused:", e); sys.exit(0)
print("REPRODUCED: {op} accepted", getattr(r, "components", r)); sys.exit(1)
'''
