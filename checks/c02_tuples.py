"""C02 for calculate_* functions with fixed-shape tuple parameters and/or tuple results (two-port matrices of the transmission-line laws:
`impedances_: tuple[tuple[Quantity, Quantity], tuple[Quantity, Quantity]]`, `-> tuple[Quantity, Quantity]`) and Matrix equations.

Leaves of a tuple parameter are tied to law symbols by the dictionaries of the function body (`{input_output_impedance: impedances_[0][1], ...}`,
read from the AST as data: which symbol a caller-supplied leaf stands for); every leaf is a quantity with a symbolic scale factor and the
dimension of its symbol.  The published equation (scalar or Matrix: every row) is instantiated with the leaves and the returned value(s);
when several unknowns are returned as a tuple, the statement does not say which element is which symbol, so every assignment of the returned
elements to the law's remaining symbols is tried and one that satisfies the law for all magnitudes suffices.
"""
from __future__ import annotations

import ast
import inspect
import itertools
import textwrap
import typing
from fractions import Fraction

import sympy as sp
import z3

from vlib import catalogue, lift, qspec
from vlib.lift import Session, explore, make_quantity, rebound, LiftUnsupported, VS
from vlib.par import with_timeout, ItemTimeout
from vlib.s2smt import Unencodable, model_value, qv


def annotation_of(mod, inner, pname):
    ann = inspect.signature(inner).parameters[pname].annotation if pname != "return" else inspect.signature(inner).return_annotation
    if isinstance(ann, str):
        ns = dict(vars(typing))
        ns.update(vars(mod))
        try:
            from symplyphysics import Quantity
            ns.setdefault("Quantity", Quantity)
            ann = eval(ann, ns)          # the module's own annotation text
        except Exception:
            return None
    return ann


def shape(ann):
    """nested list of leaf types for a fixed-shape tuple annotation; None if not such an annotation"""
    if typing.get_origin(ann) is tuple:
        args = typing.get_args(ann)
        if not args or Ellipsis in args:
            return None
        sub = [shape(a) if typing.get_origin(a) is tuple else a for a in args]
        if any(x is None for x in sub):
            return None
        return sub
    return None


def is_tuple_function(mod, inner):
    sig = inspect.signature(inner)
    for pn in list(sig.parameters) + ["return"]:
        a = annotation_of(mod, inner, pn)
        if a is not None and shape(a) is not None:
            return True
    return False


def leaf_symbols(mod, inner):
    """{(parameter, index path): law symbol} from the dictionaries of the body"""
    out = {}
    try:
        tree = ast.parse(textwrap.dedent(inspect.getsource(inner)))
    except Exception:
        return out
    params = set(inspect.signature(inner).parameters)
    for node in ast.walk(tree):
        if not isinstance(node, ast.Dict):
            continue
        for k, v in zip(node.keys, node.values):
            if k is None:
                continue
            path = []
            cur = v
            while isinstance(cur, ast.Subscript) and isinstance(cur.slice, ast.Constant) and isinstance(cur.slice.value, int):
                path.insert(0, cur.slice.value)
                cur = cur.value
            if isinstance(cur, ast.Name) and cur.id in params:
                try:
                    sym = eval(ast.unparse(k), vars(mod))
                except Exception:
                    continue
                if isinstance(sym, sp.Symbol):
                    out[(cur.id, tuple(path))] = sym
    return out


def apply_law_positions(mod, inner, eqs, lsyms):
    """overrides lsyms in place; returns the parameters whose positions were read from the law's matrices"""
    # positions of a tuple parameter are given by the published equation itself when it contains a matrix of plain symbols of the same
    # shape (V = Z I with Z = Matrix([[Z_ii, Z_io], [Z_oi, Z_oo]]): impedances_[i][j] is entry (i, j)); this reading overrides the body's
    # own dictionary, which is part of the code under test
    sym_mats = []
    for _, eq_ in eqs:
        for side in (eq_.lhs, eq_.rhs):
            for mtx in sp.sympify(side).atoms(sp.ImmutableMatrix) | ({side} if isinstance(side, sp.MatrixBase) else set()):
                if all(isinstance(x, sp.Symbol) for x in mtx):
                    sym_mats.append(mtx)
    positions_from_law = []
    for pname in inspect.signature(inner).parameters:
        ann = annotation_of(mod, inner, pname)
        sh = shape(ann) if ann is not None else None
        if sh is None:
            continue
        dims = (len(sh), len(sh[0])) if isinstance(sh[0], list) else (len(sh),)
        body_syms = {v for (pn_, _), v in lsyms.items() if pn_ == pname}
        cands = []
        for mtx in sym_mats:
            if len(dims) == 2 and mtx.shape == dims:
                cands.append(mtx)
            elif len(dims) == 1 and (mtx.shape == (dims[0], 1) or mtx.shape == (1, dims[0])):
                cands.append(mtx)
        # the matrix that holds the symbols this parameter is about (same symbol set as the body's dictionary, whatever the positions)
        cands = [mtx for mtx in cands if not body_syms or set(mtx) == body_syms]
        if len({tuple(mtx) for mtx in cands}) == 1:
            mtx = cands[0]
            for idx, sym_ in enumerate(mtx):
                path = (idx // mtx.shape[1], idx % mtx.shape[1]) if len(dims) == 2 else (idx,)
                lsyms[(pname, path)] = sym_
            positions_from_law.append(pname)
    return positions_from_law


def rows_of(side):
    """scalar entries of one side of a (possibly Matrix-valued, possibly unevaluated matrix product) equation"""
    if isinstance(side, sp.MatrixBase):
        return list(side)
    if getattr(side, "is_Matrix", False):
        try:
            return list(side.as_explicit())
        except Exception:
            return list(sp.Matrix(side.doit()))
    return [side]


def check(item):
    from checks import c02
    from symplyphysics.core.symbols.symbols import DimensionSymbol
    from symplyphysics.core.dimensions.dimensions import AnyDimension
    from sympy.physics.units import Quantity as SymQuantity, Dimension
    modname, fname, domain = item
    name = f"{modname.replace('symplyphysics.', '')}.{fname}[{domain}]"
    out = {"name": name, "item": item, "queries": 0, "solver_s": 0.0}
    mod = catalogue.load(modname)
    fn = getattr(mod, fname)
    info = catalogue.decorator_info(fn)
    inner = info["inner"]
    sig = inspect.signature(inner)
    eqs = [(n, e) for n, e in catalogue.public_equations(mod) if isinstance(e, sp.Equality) and n.split("[")[0] in ("law", "definition", "condition", "conditions", "derived_law")]
    if not eqs:
        out.update(verdict="unencoded", why="tuple function: module exports no equation object")
        return out
    lsyms = leaf_symbols(mod, inner)
    positions_from_law = apply_law_positions(mod, inner, eqs, lsyms)
    out["positions_from_law"] = positions_from_law
    ses = Session(None, timeout_ms=c02.TIMEOUT_MS)
    ses.clear_sympy_cache = True
    ses.enc.extra_handlers.append(qspec.quantity_handler)
    with ses.active(), rebound(*c02.bindings(mod)):
        sub = {}          # law symbol -> verification scalar
        leaves = {}       # "param[i][j]" -> scalar
        args = {}

        def leaf(pname, path, typ, spec):
            key = pname + "".join(f"[{i}]" for i in path)
            sym = lsyms.get((pname, tuple(path)))
            if sym is None and not path and isinstance(spec, sp.Symbol):
                sym = spec
            d = None
            if not path and spec is not None:
                d = spec.dimension if isinstance(spec, DimensionSymbol) else spec
            elif sym is not None and isinstance(sym, DimensionSymbol):
                d = sym.dimension
            s = VS("a_" + key.replace("[", "_").replace("]", ""), positive=(domain == "positive"))
            if domain == "positive":
                ses.assume.append(ses.z(s) > 0)
            leaves[key] = s
            if sym is not None:
                sub[sym] = s
            if typ is float or (d is None and "float" in str(typ)):
                return s
            if d is None or not isinstance(d, Dimension) or isinstance(d, AnyDimension):
                raise LookupError(f"leaf {key}: no law symbol / dimension is declared for it")
            return make_quantity(s, d.subs("angle", 1))

        def build(pname, sh, path, spec):
            if isinstance(sh, list):
                return tuple(build(pname, x, path + [i], spec) for i, x in enumerate(sh))
            return leaf(pname, path, sh, spec)
        try:
            for pname, p in sig.parameters.items():
                if p.kind in (p.VAR_POSITIONAL, p.VAR_KEYWORD):
                    raise LookupError("variadic parameters")
                ann = annotation_of(mod, inner, pname)
                sh = shape(ann) if ann is not None else None
                spec = info["inputs"].get(pname)
                if sh is None and ("Sequence" in str(ann) or "list" in str(ann).lower() or "Vector" in str(ann)):
                    raise LookupError(f"parameter {pname}: variable-length sequence / vector")
                if isinstance(spec, (list, tuple)):
                    raise LookupError(f"parameter {pname}: sequence declaration")
                args[pname] = build(pname, sh if sh is not None else (float if ann is float else SymQuantity), [], spec)
        except LookupError as e:
            out.update(verdict="unencoded", why=f"tuple function: {e}")
            return out
        try:
            paths = with_timeout(lambda: explore(lambda: fn(**args), max_paths=40), c02.CALL_TIMEOUT)
        except ItemTimeout:
            out.update(verdict="unencoded", why="symbolic call did not finish in time")
            return out
        except (LiftUnsupported, Unencodable, RecursionError) as e:
            out.update(verdict="unencoded", why=f"lift: {str(e)[:70]}")
            return out
        rets = [p for p in paths if p.kind == "ret"]
        if not rets:
            why = paths[0].value if paths else "no path"
            out.update(verdict="unencoded", why=f"symbolic call raises on every path: {type(why).__name__}: {str(why)[:60]}")
            return out
        verdicts = []
        for p in rets:
            res = p.value
            flat = []

            def flatten(x):
                if isinstance(x, (tuple, list)):
                    for y in x:
                        flatten(y)
                else:
                    flat.append(x)
            flatten(res)
            try:
                vals = [c02.nice(sp.sympify(x.scale_factor if isinstance(x, SymQuantity) else (x.expr if isinstance(x, lift.SymFloat) else x))) for x in flat]
            except Exception as e:
                verdicts.append(("unencoded", f"result: {type(e).__name__}"))
                continue
            if any(s for v in vals for s in v.free_symbols if not isinstance(s, VS)):
                verdicts.append(("candidate", "returned value still depends on unbound symbols", None, None))
                continue
            judged = False
            for ename, eq in eqs:
                lrows, rrows = rows_of(eq.lhs), rows_of(eq.rhs)
                if len(lrows) != len(rrows):
                    continue
                rows = [l_ - r_ for l_, r_ in zip(lrows, rrows)]
                free = sorted({s for r in rows for s in sp.sympify(r).free_symbols if s not in sub and not isinstance(s, VS)}, key=str)
                if len(free) != len(vals) or any(sp.sympify(r).has(sp.Derivative, sp.Integral) or sp.sympify(r).atoms(sp.core.function.AppliedUndef) for r in rows):
                    continue
                out_sym = info["output"] if isinstance(info["output"], sp.Symbol) else None
                if out_sym is not None and len(vals) == 1 and free != [out_sym]:
                    continue
                judged = True
                reps = {q_: q_.scale_factor for r in rows for q_ in sp.sympify(r).atoms(SymQuantity)}
                ok = False
                last = None
                try:
                    for perm in itertools.permutations(range(len(vals))):
                        full = dict(sub)
                        for t, i in zip(free, perm):
                            full[t] = vals[i]
                        far = []
                        for lr, rr in zip(lrows, rrows):
                            L = c02.nice(sp.sympify(lr).subs(reps)).subs(full, simultaneous=True)
                            R = c02.nice(sp.sympify(rr).subs(reps)).subs(full, simultaneous=True)
                            d = ses.z(L) - ses.z(R)
                            az = z3.If(d >= 0, d, -d)
                            mags = []
                            for t in list(sp.Add.make_args(sp.expand(L))) + list(sp.Add.make_args(sp.expand(R))):
                                tz = ses.z(t)
                                mags.append(z3.If(tz >= 0, tz, -tz))
                            far.append(z3.And(az > qv(Fraction(1, 10**9)) * z3.Sum(mags), az > 0))
                        r, m = ses.check(p.pc + [z3.Or(far)])
                        if r == "unsat":
                            ok = True
                            break
                        last = (r, m)
                except (Unencodable, LiftUnsupported) as e:
                    verdicts.append(("unencoded", f"residual of {ename}: {str(e)[:60]}"))
                    continue
                if ok:
                    verdicts.append(("discharged", f"{ename} ({len(rows)} row(s), {len(vals)} returned value(s))"))
                elif last and last[0] == "sat":
                    mvals = {k: str(model_value(last[1], ses.z(s))) for k, s in leaves.items()}
                    verdicts.append(("candidate", f"equation {ename} is not satisfied by the returned value(s) {[str(v)[:80] for v in vals]} under any assignment to {free}", mvals, ename))
                else:
                    verdicts.append(("inconclusive", "unknown"))
            if not judged:
                verdicts.append(("unencoded", "tuple function: no published equation whose remaining symbols match the returned values"))
        out["queries"], out["solver_s"] = ses.queries, ses.solver_s
        kinds = [v[0] for v in verdicts]
        if "candidate" in kinds:
            c = [v for v in verdicts if v[0] == "candidate"][0]
            out.update(verdict="candidate", why=c[1], vals=c[2] or {}, ename="T:" + (c[3] or ""), tuple_function=True,
                       result=str(rets[0].value)[:200], par2sym={f"{k[0]}{list(k[1])}": str(v) for k, v in lsyms.items()})
        elif "discharged" in kinds and "inconclusive" not in kinds:
            out.update(verdict="discharged", why="; ".join(sorted({v[1] for v in verdicts if v[0] == "discharged"})), result=str(rets[0].value)[:160], paths=len(paths))
        elif "inconclusive" in kinds:
            out.update(verdict="inconclusive", why="unknown")
        else:
            out.update(verdict="unencoded", why=verdicts[0][1] if verdicts else "nothing judged")
    return out


REPLAY = r'''
import sys, inspect, itertools
import sympy as sp
from checks import c02, c02_tuples as T
from vlib import catalogue
from symplyphysics import Quantity
from symplyphysics.core.symbols.symbols import DimensionSymbol
from sympy.physics.units import Quantity as SymQuantity
modname, fname, domain = {item!r}; vals = {vals!r}; ename = {ename!r}
mod = catalogue.load(modname); fn = getattr(mod, fname)
info = catalogue.decorator_info(fn); inner = info["inner"]; sig = inspect.signature(inner)
lsyms = T.leaf_symbols(mod, inner)
_eqs = [(n, e) for n, e in catalogue.public_equations(mod) if isinstance(e, sp.Equality) and n.split("[")[0] in ("law", "definition", "condition", "conditions", "derived_law")]
print("positions read from the matrices of the published equation for:", T.apply_law_positions(mod, inner, _eqs, lsyms))
sub = {{}}
def leaf(pname, path, typ, spec):
    key = pname + "".join(f"[{{i}}]" for i in path)
    sym = lsyms.get((pname, tuple(path)))
    if sym is None and not path and isinstance(spec, sp.Symbol): sym = spec
    d = (spec.dimension if isinstance(spec, DimensionSymbol) else spec) if (not path and spec is not None) else (sym.dimension if sym is not None else None)
    v = sp.Rational(vals.get(key, "3/2"))
    if sym is not None: sub[sym] = v
    if typ is float or d is None: return float(v)
    return Quantity(v, dimension=d.subs("angle", 1))
def build(pname, sh, path, spec):
    if isinstance(sh, list): return tuple(build(pname, x, path + [i], spec) for i, x in enumerate(sh))
    return leaf(pname, path, sh, spec)
args = {{}}
for pname in sig.parameters:
    ann = T.annotation_of(mod, inner, pname); sh = T.shape(ann) if ann is not None else None
    args[pname] = build(pname, sh if sh is not None else (float if ann is float else SymQuantity), [], info["inputs"].get(pname))
res = fn(**args)
flat = []
def flatten(x):
    if isinstance(x, (tuple, list)):
        for y in x: flatten(y)
    else: flat.append(x)
flatten(res)
got = [x.scale_factor if isinstance(x, SymQuantity) else sp.sympify(x) for x in flat]
print("arguments (internal scale factors):", vals, "-> result", got)
eq = dict(catalogue.public_equations(mod))[ename]
lrows, rrows = T.rows_of(eq.lhs), T.rows_of(eq.rhs)
free = sorted({{s for r in lrows + rrows for s in sp.sympify(r).free_symbols if s not in sub}}, key=str)
def num(e, full):
    e = sp.sympify(e)
    return sp.N(e.subs({{q: q.scale_factor for q in e.atoms(SymQuantity)}}).subs(full, simultaneous=True), 30)
ok = False
for perm in itertools.permutations(range(len(got))):
    full = dict(sub); full.update({{t: got[i] for t, i in zip(free, perm)}})
    pairs = [(num(l, full), num(r, full)) for l, r in zip(lrows, rrows)]
    print("assignment", dict(zip(map(str, free), perm)), "rows (lhs, rhs):", pairs)
    if all(abs(l - r) <= 1e-6 * (abs(l) + abs(r)) + 1e-30 for l, r in pairs): ok = True
if not ok:
    print("REPRODUCED"); sys.exit(1)
'''
