"""C04 part C: the catalogue binding of the gate (per decorated function)."""
from __future__ import annotations

import inspect
import typing
from fractions import Fraction

import sympy as sp
import z3

from vlib import catalogue
from vlib.par import pmap

BASE7 = ["mass", "length", "time", "current", "temperature", "amount_of_substance", "luminous_intensity"]


def dim_of_spec(u):
    from symplyphysics.core.symbols.symbols import DimensionSymbol
    from symplyphysics.core.operations.symbolic import Symbolic
    return u.dimension if isinstance(u, (DimensionSymbol, Symbolic)) else u


def exps(d):
    from sympy.physics.units.systems.si import dimsys_SI
    deps = dimsys_SI.get_dimensional_dependencies(d)
    out = [Fraction(0)] * 7
    for k, v in deps.items():
        nm = str(k.name)
        if nm == "angle":
            continue
        if nm not in BASE7:
            raise ValueError(f"base dimension {nm}")
        v = sp.nsimplify(v)
        out[BASE7.index(nm)] = Fraction(int(v.p), int(v.q))
    return out


def wrong_dimension(declared):
    """solver-chosen wrong dimension: small integer exponents, inequivalent to the declared vector and not dimensionless"""
    xs = [z3.Int(f"w_{b}") for b in BASE7]
    s = z3.Solver()
    for x in xs:
        s.add(x >= -2, x <= 2)
    s.add(z3.Or([z3.ToReal(x) != z3.Q(e.numerator, e.denominator) for x, e in zip(xs, declared)]))
    s.add(z3.Or([x != 0 for x in xs]))
    # prefer something "close": differs from the declared vector in as few slots as possible is not needed; any model will do
    assert str(s.check()) == "sat"
    m = s.model()
    return [m.eval(x, model_completion=True).as_long() for x in xs]


def mkdim(ex):
    from sympy.physics import units
    from symplyphysics import dimensionless
    base = [units.mass, units.length, units.time, units.current, units.temperature, units.amount_of_substance, units.luminous_intensity]
    d = dimensionless
    for b, e in zip(base, ex):
        if e != 0:
            d = d * b**sp.Rational(e.numerator, e.denominator) if isinstance(e, Fraction) else d * b**e
    return d


def annotation_kind(param):
    a = param.annotation
    s = a if isinstance(a, str) else getattr(a, "__name__", str(a))
    s = str(a)
    if "QuantityVector" in s:
        return "qvector"
    if "Sequence" in s or "list" in s or "tuple" in s.lower():
        return "seq"
    if "Vector" in s:
        return "vector"
    return "scalar"


def check_module(modname):
    from symplyphysics import Quantity
    from symplyphysics.core.errors import UnitsError
    from symplyphysics.core.vectors.vectors import QuantityVector
    from symplyphysics.core.dimensions.dimensions import AnyDimension
    out = []
    try:
        mod = catalogue.load(modname)
    except Exception as e:
        return [{"name": f"C:{modname}", "verdict": "unencoded", "why": f"module does not import: {type(e).__name__}: {str(e)[:100]}"}]
    for fname, fn in catalogue.public_functions(mod):
        info = catalogue.decorator_info(fn)
        if not info["inputs"] and not info["has_output"] and not info["output_same"]:
            continue
        sig = inspect.signature(info["inner"])
        base = f"C:{modname.replace('symplyphysics.', '')}.{fname}"
        # (1) every guard key names a parameter
        for key in info["inputs"]:
            if key in sig.parameters:
                out.append({"name": f"{base}:key:{key}", "verdict": "discharged", "trivial": True})
            else:
                out.append({"name": f"{base}:key:{key}", "verdict": "candidate", "kind": "key", "mod": modname, "fn": fname, "param": key,
                            "why": f"validate_input key '{key}' is not a parameter of {fname}{sig}"})
        if info["output_same"] and info["output_same"] not in sig.parameters:
            out.append({"name": f"{base}:same:{info['output_same']}", "verdict": "candidate", "kind": "key", "mod": modname, "fn": fname,
                        "param": info["output_same"], "why": "validate_output_same names a missing parameter"})
        # (2) wrong-dimension refusal per guarded parameter
        good = {}
        skip = None
        for pname, p in sig.parameters.items():
            kind = annotation_kind(p)
            spec = info["inputs"].get(pname)
            try:
                if spec is None:
                    d = None
                elif isinstance(spec, (list, tuple)):
                    d = [dim_of_spec(u) for u in spec]
                else:
                    d = dim_of_spec(spec)
            except Exception as e:
                skip = f"spec of {pname}: {e}"
                break
            good[pname] = (kind, d)
        if skip:
            out.append({"name": base, "verdict": "unencoded", "why": skip})
            continue

        def value(kind, d, wrong=None):
            from symplyphysics import dimensionless
            if d is None:
                d_eff = dimensionless
            else:
                d_eff = d
            if isinstance(d_eff, list):
                return [Quantity(1, dimension=(wrong if (wrong is not None and i == len(d_eff) - 1) else dd)) for i, dd in enumerate(d_eff)]
            if kind == "seq":
                return [Quantity(1, dimension=d_eff), Quantity(1, dimension=wrong if wrong is not None else d_eff)]
            if kind == "qvector":
                dd = wrong if wrong is not None else d_eff
                return QuantityVector([Quantity(1, dimension=dd)] * 3, dimension=dd)
            return Quantity(1, dimension=wrong if wrong is not None else d_eff)

        for pname, (kind, d) in good.items():
            if pname not in info["inputs"]:
                continue
            dlist = d if isinstance(d, list) else [d]
            if any(isinstance(x, AnyDimension) for x in dlist):
                out.append({"name": f"{base}:wrong:{pname}", "verdict": "unencoded", "why": "declared dimension is the wildcard"})
                continue
            if kind == "vector":
                out.append({"name": f"{base}:wrong:{pname}", "verdict": "unencoded", "why": "plain Vector parameter"})
                continue
            try:
                declared = exps(dlist[-1])
                w = wrong_dimension(declared)
                wd = mkdim([Fraction(x) for x in w])
                args = {}
                for qn, (k2, d2) in good.items():
                    if sig.parameters[qn].kind in (inspect.Parameter.VAR_POSITIONAL, inspect.Parameter.VAR_KEYWORD):
                        continue
                    args[qn] = value(k2, d2, wd if qn == pname else None)
            except Exception as e:
                out.append({"name": f"{base}:wrong:{pname}", "verdict": "unencoded", "why": f"cannot build arguments: {type(e).__name__}: {str(e)[:80]}"})
                continue
            idx = (len(dlist) - 1) if isinstance(d, list) else (1 if kind == "seq" else None)
            expect_names = [f"'{pname}[{idx}]'"] if idx is not None else [f"'{pname}'"]
            try:
                pos = [args[n] for n, p in sig.parameters.items() if p.kind in (p.POSITIONAL_ONLY, p.POSITIONAL_OR_KEYWORD) and n in args]
                kw = {n: args[n] for n, p in sig.parameters.items() if p.kind == p.KEYWORD_ONLY and n in args}
                fn(*pos, **kw)
                got = "accepted"
                msg = ""
            except UnitsError as e:
                got, msg = "UnitsError", str(e)
            except TypeError as e:
                got, msg = "TypeError", str(e)
            except Exception as e:
                got, msg = type(e).__name__, str(e)
            ok = got == "UnitsError" and any(nm in msg for nm in expect_names)
            rec = {"name": f"{base}:wrong:{pname}", "mod": modname, "fn": fname, "param": pname, "w": w, "kind": "wrong", "expect": expect_names}
            if ok:
                rec["verdict"] = "discharged"
                rec["sample"] = {"function": f"{modname}.{fname}", "parameter": pname, "declared_exponents": [str(x) for x in declared],
                                 "solver_chosen_wrong_exponents": w, "observed": f"{got}: {msg[:90]}"}
            else:
                rec["verdict"] = "candidate"
                rec["why"] = f"wrong-dimension quantity (exponents {w}) for '{pname}' -> {got}: {msg[:120]}"
            out.append(rec)
    return out


REPLAY_C = r'''
import sys, inspect
from fractions import Fraction
from checks import c04_catalogue as CC
from vlib import catalogue
modname = {mod!r}; fname = {fn!r}; pname = {param!r}; kind = {kind!r}
res = CC.check_module(modname)
bad = [r for r in res if r.get("verdict") == "candidate" and r.get("fn") == fname and r.get("param") == pname and r.get("kind") == kind]
for r in bad: print(r["name"], "->", r["why"])
if bad:
    print("REPRODUCED"); sys.exit(1)
'''


def part_c(ctx):
    mods = catalogue.module_names()
    if ctx.tier == "quick":
        pass  # the catalogue pass is cheap enough to be run completely in both tiers
    res = pmap(check_module, mods)
    nfun = set()
    for rl in res:
        if isinstance(rl, dict) and "error" in rl:
            ctx.harness_errors.append(rl["error"][-300:])
            continue
        for r in rl:
            v = r["verdict"]
            if v == "discharged":
                ctx.ob(r["name"], "discharged", nontrivial=not r.get("trivial", False), sample=r.get("sample") if len(ctx.samples) < 10 else None)
                nfun.add(r["name"].split(":")[1])
            elif v == "unencoded":
                ctx.ob(r["name"], "unencoded", r["why"])
            else:
                ctx.violation(f"C04:{r['name']}", r["why"], REPLAY_C.format(mod=r["mod"], fn=r["fn"], param=r["param"], kind=r["kind"]))
    ctx.extra["catalogue_modules"] = len(mods)
    ctx.extra["catalogue_functions_checked"] = len(nfun)
