"""C01 - every published equation is dimensionally homogeneous (engine D: DimLRA)."""
from __future__ import annotations

from vlib import catalogue, dimlra
from vlib.par import pmap

LEVEL = "other"


def check_module(modname):
    out = []
    try:
        mod = catalogue.load(modname)
    except Exception as e:
        return [{"name": f"{modname}", "verdict": "unencoded", "why": f"module does not import: {type(e).__name__}: {str(e)[:100]}"}]
    for attr, eq in catalogue.public_equations(mod):
        nm = f"{modname.replace('symplyphysics.', '')}.{attr}"
        try:
            r = dimlra.check_equation(eq, nm)
        except Exception as e:
            r = {"verdict": "unencoded", "why": f"walker error {type(e).__name__}: {str(e)[:100]}"}
        r["name"] = nm
        r["mod"] = modname
        r["attr"] = attr
        r["eq"] = str(eq)[:200]
        out.append(r)
    return out


REPLAY = r'''
import sys
from vlib import catalogue, dimlra
from symplyphysics.core.dimensions import collect_expression_and_dimension
modname, attr = {mod!r}, {attr!r}
mod = catalogue.load(modname)
eq = dict(catalogue.public_equations(mod))[attr]
r = dimlra.check_equation(eq, attr)
print("equation:", eq); print("verdict:", r["verdict"])
for c in r.get("core", []): print("  conflicting requirement:", c)
try:
    l = collect_expression_and_dimension(eq.lhs)[1]; rr = collect_expression_and_dimension(eq.rhs)[1]
    print("library's own inference: lhs", l, " rhs", rr)
except Exception as e:
    print("library's own inference refuses:", type(e).__name__, e)
if r["verdict"] == "inhomogeneous":
    print("REPRODUCED"); sys.exit(1)
'''


def run(ctx):
    mods = catalogue.module_names()
    ctx.explanation = (
        "Engine D (DimLRA). Every public Relational (and list of Relationals) exported by every module under laws/, definitions/ and "
        "conditions/ is walked by an independent walker (vlib/dimlra.py, not the library's collect_expression): each node is mapped to a "
        "linear form over dimension-exponent vectors; wildcard-dimension symbols are existential variables; non-numeric exponents are "
        "atoms whose coefficients must agree separately (so the equation is homogeneous for EVERY value of its symbols); the emitted linear "
        "constraints (sums, comparisons, Min/Max, Piecewise branches, dimensionless exponents and function arguments, derivative/integral "
        "rules, wrapper consistency) are decided by z3 QF_LRA per equation. Polarity: the solver variables are existential, so sat = "
        "homogeneous; unsat gives a core naming the conflicting sub-terms.")
    ctx.functions_encoded = ["every public equation object of the catalogue (data, not functions)", "declared dimensions of Symbol/Function/IndexedSymbol/Symbolic/Quantity leaves"]
    ctx.bounds = ["all catalogue modules; node types listed in DESIGN 3.1; others reported unencoded with the node type"]
    ctx.outside = ["vector laws given as Python functions (no equation object)", "Order terms", "matrix equations beyond entry-wise expansion"]
    ctx.trusted = ["z3 QF_LRA", "sympy dimsys_SI.get_dimensional_dependencies for declared dimensions", "vlib/dimlra.py rules (written from the statement)"]
    res = pmap(check_module, mods)
    n_eq = 0
    for rl in res:
        if isinstance(rl, dict):
            ctx.harness_errors.append(rl.get("error", "")[-300:])
            continue
        for r in rl:
            n_eq += 1
            ctx.add_solver(1, 0.0)
            v = r["verdict"]
            if v == "homogeneous":
                smp = {"equation": r["name"], "text": r["eq"], "constraints": r["n_constraints"], "wildcards": r["wildcards"]} if (len(ctx.samples) < 10 and r["n_constraints"] >= 4) else None
                ctx.ob(r["name"], "discharged", nontrivial=r["n_constraints"] > 0, sample=smp)
            elif v == "unencoded":
                ctx.ob(r["name"], "unencoded", r["why"])
            elif v == "unknown":
                ctx.ob(r["name"], "inconclusive", r["why"])
            else:
                ctx.violation(f"C01:{r['name']}", f"{r['eq']}: conflicting dimensional requirements: " + " || ".join(r["core"])[:600], REPLAY.format(mod=r["mod"], attr=r["attr"]))
    ctx.extra["equations"] = n_eq
    ctx.extra["modules"] = len(mods)
    ctx.extra["exhaustive"] = True
