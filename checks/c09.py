"""C09 - distinct symbols never alias; clones keep dimension and assumptions (engine X: CrossHair, + concrete O4/O5).

O1-O3 are decided by CrossHair (symbolic execution of the real str/int helpers with z3): only
"Confirmed over all paths" counts as discharged; each harness has a twin with postcondition False that
must be refuted (vacuity guard).  O4/O5 run the real constructors at solver-relevant counter states
(digit boundaries) and are concrete: their for-all rests on O1+O2 and on SymPy's rule that symbols with
different names are different objects.
"""
from __future__ import annotations

import ast
import os
import re
import subprocess
import sys
import time
from concurrent.futures import ThreadPoolExecutor

from vlib.report import ROOT

LEVEL = "other"

HARNESS = r'''
from typing import Optional, Tuple
import sympy
from sympy.physics import units
from symplyphysics.core.symbols import id_generator as G
from symplyphysics.core.symbols import symbols as S
from symplyphysics.core.symbols.symbols import _process_subscript_and_names, next_name, clone_as_symbol, clone_as_function, clone_as_indexed, Symbol

PREFIXES = {prefixes!r}


def o1_next_id(p: int, m: int, k: int) -> int:
    """
    pre: 0 <= p < len(PREFIXES) and m >= 0 and k >= 0
    post: _ == m + 1
    """
    base = PREFIXES[p]
    G._ids.clear()
    G._ids[base] = m
    G._ids["<other>"] = k
    r = G.next_id(base)
    assert G._ids[base] == m + 1
    assert G._ids["<other>"] == k
    assert len(G._ids) == 2
    return r


def o1_next_id_fresh(p: int, k: int) -> int:
    """
    pre: 0 <= p < len(PREFIXES) and k >= 0
    post: _ == 1
    """
    base = PREFIXES[p]
    G._ids.clear()
    G._ids["<other>"] = k
    r = G.next_id(base)
    assert G._ids[base] == 1 and G._ids["<other>"] == k
    return r


def o2_cross_prefix(p: int, q: int, i: int, j: int) -> bool:
    """
    pre: 0 <= p < len(PREFIXES) and 0 <= q < len(PREFIXES) and p != q
    pre: 0 <= i < 1000000 and 0 <= j < 1000000
    post: _
    """
    G._ids.clear()
    G._ids[PREFIXES[p]] = i
    a = next_name(PREFIXES[p])
    G._ids[PREFIXES[q]] = j
    b = next_name(PREFIXES[q])
    return a != b


{o2_per_prefix}

def o3_subscript(code: str, latex: str, sub: Optional[str]) -> Tuple[str, str]:
    """
    pre: len(code) <= 4 and len(latex) <= 4 and (sub is None or len(sub) <= 4)
    post: _ == ((code, latex) if not sub else (code + "_" + sub, latex + "_{{" + sub + "}}"))
    """
    return _process_subscript_and_names(code, latex, sub)


_SRC = Symbol("m", units.mass, display_latex="M", positive=True)
_SRC_NEG = Symbol("w", units.length, display_latex="W", positive=False, real=True)
_SRC_NC = Symbol("A", units.time, commutative=False)


def o3_clone_symbol_names(name: Optional[str], latex: Optional[str], sub: Optional[str]) -> Tuple[str, str]:
    """
    pre: (name is None or 0 < len(name) <= {n}) and (latex is None or 0 < len(latex) <= {n}) and (sub is None or len(sub) <= {n})
    post: _ == _process_subscript_and_names(name or "m", latex or "M", sub)
    """
    c = clone_as_symbol(_SRC, display_symbol=name, display_latex=latex, subscript=sub)
    assert c.dimension is _SRC.dimension
    assert c is not _SRC and c != _SRC
    return (c.display_name, c.display_latex)


def o3_clone_assumptions(which: int, positive: Optional[bool], real: Optional[bool], integer: Optional[bool], nonnegative: Optional[bool]) -> bool:
    """
    pre: 0 <= which < 3
    post: _
    """
    src = (_SRC, _SRC_NEG, _SRC_NC)[which]
    kw = {{}}
    if positive is not None: kw["positive"] = positive
    if real is not None: kw["real"] = real
    if integer is not None: kw["integer"] = integer
    if nonnegative is not None: kw["nonnegative"] = nonnegative
    try:
        c = clone_as_symbol(src, **kw)
    except sympy.core.facts.InconsistentAssumptions:
        return True
    want = kw if kw else src.assumptions0
    for k, v in want.items():
        if c.assumptions0.get(k) != v:
            return False
    if not kw and c.assumptions0 != src.assumptions0:
        return False
    return c.dimension is src.dimension and c.display_name == src.display_name and c.display_latex == src.display_latex
'''

O2_TEMPLATE = '''def o2_same_prefix_{k}(i: int, j: int) -> bool:
    """
    pre: 0 <= i < 1000000 and 0 <= j < 1000000 and i != j
    post: _
    """
    G._ids[{pre!r}] = i
    a = next_name({pre!r})
    G._ids[{pre!r}] = j
    b = next_name({pre!r})
    return a != b


def o2_format_{k}(i: int) -> bool:
    """
    pre: 0 <= i < 1000000
    post: _
    """
    G._ids[{pre!r}] = i
    return next_name({pre!r}) == {pre!r} + str(i + 1) and G._ids[{pre!r}] == i + 1
'''

STR_N = 2
TWIN_NOTE = "twin: same body, postcondition False -> must be refuted"


def prefixes_from_source():
    """prefix literals that occur as arguments of next_name / next_id in the anchored sources (read from the AST on every run)"""
    out = set()
    base = os.environ.get("VERIF_REPO", "/repo") + "/symplyphysics/core"
    for root, _, files in os.walk(base):
        for f in files:
            if not f.endswith(".py"):
                continue
            try:
                tree = ast.parse(open(os.path.join(root, f), encoding="utf-8").read())
            except SyntaxError:
                continue
            for node in ast.walk(tree):
                if isinstance(node, ast.Call):
                    fn = node.func
                    nm = fn.id if isinstance(fn, ast.Name) else (fn.attr if isinstance(fn, ast.Attribute) else None)
                    if nm in ("next_name", "next_id", "last_id") and node.args and isinstance(node.args[0], ast.Constant) and isinstance(node.args[0].value, str):
                        out.add(node.args[0].value)
                    if nm in ("next_id",) and not node.args:
                        out.add("")
    return sorted(out)


def make_twin(src):
    """for every harness function add f__twin with the last post line replaced by `post: False`"""
    parts = re.split(r"\n(?=def o\d)", src)
    head, funcs = parts[0], parts[1:]
    out = [head]
    for f in funcs:
        out.append(f)
        name = re.match(r"def (\w+)\(", f).group(1)
        lines = f.split("\n")
        twin = []
        seen_post = False
        for ln in lines:
            if ln.strip().startswith("post:") and not seen_post:
                twin.append(ln[:ln.index("post:")] + "post: False")
                seen_post = True
            else:
                twin.append(ln)
        out.append("\n".join(twin).replace(f"def {name}(", f"def {name}__twin(", 1))
    return "\n\n".join(out)


def run_crosshair(path, line, timeout):
    cmd = [os.path.join(ROOT, ".venv", "bin", "crosshair"), "check", "--report_all", "--per_condition_timeout", str(timeout), f"{path}:{line}"]
    env = dict(os.environ)
    env["PYTHONPATH"] = ROOT + os.pathsep + env.get("PYTHONPATH", "")
    t0 = time.time()
    try:
        p = subprocess.run(cmd, capture_output=True, text=True, timeout=timeout * 6 + 120, env=env, cwd=os.path.dirname(path))
        out = p.stdout + p.stderr
    except subprocess.TimeoutExpired:
        out = "TIMEOUT"
    return out, time.time() - t0


REPLAY_X = r'''
import sys, os, re, importlib.util, inspect
sys.path.insert(0, {root!r})
from checks import c09
path = c09.write_harness()
spec = importlib.util.spec_from_file_location("c09_harness", path); H = importlib.util.module_from_spec(spec); spec.loader.exec_module(H)
call = {call!r}          # the concrete call CrossHair reported; re-executed as ordinary Python
fn = getattr(H, {fn!r})
inner = call[call.index("(") + 1:call.rindex(")")]
args = eval("(" + inner + ",)", vars(H)) if inner.strip() else ()
try:
    res = fn(*args)
except Exception as e:
    print("REPRODUCED:", call, "raised", type(e).__name__, e); sys.exit(1)
names = list(inspect.signature(fn).parameters)
env = dict(vars(H)); env.update(dict(zip(names, args))); env["_"] = res
posts = [l.split("post:", 1)[1].strip() for l in (fn.__doc__ or "").splitlines() if l.strip().startswith("post:")]
for ps in posts:
    if not eval(ps, env):
        print("REPRODUCED:", call, "returned", res, "violating post:", ps); sys.exit(1)
print(call, "->", res, "satisfies the postcondition")
'''


def write_harness():
    os.makedirs(os.path.join(ROOT, "scratch"), exist_ok=True)
    path = os.path.join(ROOT, "scratch", "c09_harness.py")
    prefixes = prefixes_from_source()
    per = []
    for k, pre in enumerate(prefixes):
        per.append(O2_TEMPLATE.format(k=k, pre=pre))
    src = make_twin(HARNESS.format(prefixes=prefixes, o2_per_prefix="\n\n".join(per), n=STR_N))
    with open(path, "w") as f:
        f.write(src)
    return path


def line_of(path, fn):
    for i, ln in enumerate(open(path).read().split("\n"), 1):
        if ln.startswith(f"def {fn}("):
            return i + 1
    raise KeyError(fn)


def run(ctx):
    global STR_N
    thorough = ctx.tier == "thorough"
    timeout = 200 if thorough else 40
    STR_N = 3 if thorough else 2
    path = write_harness()
    prefixes = prefixes_from_source()
    fns = re.findall(r"^def (o\d\w+)\(", open(path).read(), re.M)
    ctx.explanation = (
        "Engine X (CrossHair 0.0.110 + z3). O1: next_id returns old+1 (1 if absent) and updates only its own prefix, for symbolic counters "
        "(unbounded ints) and every prefix literal found in the source. O2: next_name is injective over (prefix, id) for ids < 10^6 and "
        "consecutive names differ - with O1 this is the inductive step 'a new name differs from all earlier ones' for every creation history "
        "within the bound. O3: _process_subscript_and_names and the display names / dimension / assumptions of clone_as_symbol and "
        "clone_as_function for symbolic display_symbol, display_latex, subscript (<= 3-4 chars) and symbolic Optional[bool] assumption flags. "
        "Each harness has a twin with postcondition False that CrossHair must refute. O4/O5 (constructors use exactly the minted name; "
        "equal display names never alias under subs/diff/solve; printers show display names) are concrete runs at digit-boundary counter states.")
    ctx.functions_encoded = ["id_generator.next_id", "symbols.next_name", "symbols._process_subscript_and_names", "symbols.clone_as_symbol", "symbols.clone_as_function",
                             "symbols.clone_as_indexed", "Symbol/IndexedSymbol/Function/Quantity/CoordinateSystem/VectorSymbol constructors (O4, concrete)"]
    ctx.bounds = [f"prefix literals read from the source: {prefixes}", "ids < 10^6 (O2); counters unbounded (O1)", "strings <= 3-4 characters (O3)",
                  f"crosshair --per_condition_timeout {timeout}"]
    ctx.outside = ["Symbolic wrappers (Average(x), ...) are named after the display text of their argument and do alias when display texts coincide; they are not in the property's list",
                   "'substituting/solving/differentiating one never affects another' is reduced to name distinctness + SymPy's own semantics (O4 samples it concretely)"]
    ctx.trusted = ["CrossHair's symbolic str/int semantics", "z3", "SymPy: symbols with different names are different"]

    def job(fn):
        return fn, run_crosshair(path, line_of(path, fn), timeout)
    with ThreadPoolExecutor(max_workers=12) as ex:
        results = dict(ex.map(job, fns))
    for fn in fns:
        if fn.endswith("__twin"):
            continue
        out, secs = results[fn]
        tout, tsecs = results[fn + "__twin"]
        ctx.add_solver(2, secs + tsecs)
        refuted_twin = "error:" in tout
        if "error:" in out and "Confirmed" not in out:
            msg = [l for l in out.splitlines() if "error:" in l][0][:400]
            mm = re.search(r"when calling (\w+\(.*\))", msg)
            call = mm.group(1) if mm else fn + "()"
            call = re.sub(r"\s*\(which returns.*$", "", call)
            ctx.violation(f"C09:{fn}", f"CrossHair counterexample: {msg}", REPLAY_X.format(root=ROOT, fn=fn, call=call))
        elif "Confirmed over all paths" in out:
            if refuted_twin:
                ctx.ob(fn, "discharged", sample={"condition": fn, "crosshair": "Confirmed over all paths", "twin": "refuted", "seconds": round(secs, 1)})
            else:
                ctx.ob(fn, "inconclusive", "confirmed but the reachability twin was not refuted (vacuous?)")
        else:
            why = "Unable to meet precondition" if "Unable to meet precondition" in out else ("not confirmed within the time limit" if "Not confirmed" in out else out.strip()[-120:])
            ctx.ob(fn, "inconclusive", why)
    concrete_o4_o5(ctx)


REPLAY_O4 = r'''
import sys
sys.path.insert(0, {root!r})
from checks import c09
try:
    bad = c09.o4_o5_cases({state!r})
except Exception as e:          # the scenario is made of valid library calls only: an exception out of it is a failure of the library
    bad = ["raised " + type(e).__name__ + ": " + str(e)[:300]]
for b in bad: print(b)
if bad:
    print("REPRODUCED"); sys.exit(1)
'''


def o4_o5_cases(state):
    """run the real constructors with the counters preset to `state`; returns list of failures (strings)"""
    import sympy as sp
    from sympy.physics import units
    from symplyphysics.core.symbols import id_generator as G
    from symplyphysics.core.symbols import symbols as S
    from symplyphysics import Symbol, Function, Quantity, IndexedSymbol, clone_as_symbol, clone_as_function
    from symplyphysics.core.symbols.symbols import clone_as_indexed
    from symplyphysics.core.coordinate_systems.coordinate_systems import CoordinateSystem, coordinates_transform
    from symplyphysics.core.experimental.vectors import VectorSymbol, VectorFunction
    from symplyphysics.docs.printer_code import code_str
    from symplyphysics.docs.printer_latex import latex_str
    bad = []
    for k in list(G._ids):
        G._ids[k] = max(G._ids[k], state)
    for p in ("SYM", "FUN", "QTY", "SYS", "VEC"):
        G._ids[p] = state
    minted = []
    orig = S.next_name

    def rec(name):
        r = orig(name)
        minted.append(r)
        return r
    S.next_name = rec
    try:
        a = Symbol("x", units.length, positive=True)
        b = Symbol("x", units.length, positive=True)
        names = list(minted)
    finally:
        S.next_name = orig
    if [a.name, b.name] != names:
        bad.append(f"Symbol names {a.name, b.name} are not the minted names {names}")
    if a == b or hash(a) == hash(b) and a.name == b.name:
        bad.append("two Symbols with equal display names are equal")
    if (a + 2 * b).subs(a, 1) != 1 + 2 * b or sp.diff(a * b, a) != b or sp.solve(a - b - 1, a) != [b + 1]:
        bad.append("subs/diff/solve on one symbol affected another with the same display name")
    f1, f2 = Function("f", [a]), Function("f", [a])
    if f1 == f2 or str(f1.name) == str(f2.name) or f1(a) == f2(a):
        bad.append("two Functions with equal display names alias")
    q1, q2 = Quantity(1 * units.meter, display_symbol="q"), Quantity(1 * units.meter, display_symbol="q")
    if q1 == q2 or (q1 + q2).subs(q1, 0) != q2:
        bad.append("two Quantities with equal display names alias")
    i1, i2 = IndexedSymbol("m", None, units.mass), IndexedSymbol("m", None, units.mass)
    if i1 == i2 or i1[i1.index] == i2[i2.index]:
        bad.append("two IndexedSymbols with equal display names alias")
    # human-readable printing of indexed symbols, bare and as elements, through every printer: never the generated name
    i3 = IndexedSymbol("w", None, units.mass)
    for expr in (i3, 2 * i3, i3[i3.index], sp.Eq(a, a + 1, evaluate=False).subs(a, i3) if False else 3 * i3 + a):
        for pr, txt in (("print_expression", S.print_expression(expr)), ("code_str", code_str(expr)), ("latex_str", latex_str(expr))):
            if re.search(r"(SYM|FUN|QTY)\d", txt):
                bad.append(f"{pr} shows a generated internal name for an indexed symbol: {txt!r}")
    # clones keep the source's LaTeX name when none is given (sources whose LaTeX name differs from the code name)
    srcl = Symbol("w_0", units.mass, display_latex="\\omega_0")
    for mk, nm in ((clone_as_indexed, "clone_as_indexed"), (clone_as_symbol, "clone_as_symbol")):
        cl = mk(srcl)
        if cl.display_latex != srcl.display_latex or cl.display_name != srcl.display_name or cl.dimension is not srcl.dimension:
            bad.append(f"{nm} of a source with LaTeX name {srcl.display_latex!r} has names {(cl.display_name, cl.display_latex)}")
    cfl = clone_as_function(srcl, [a])
    if cfl.display_latex != srcl.display_latex or cfl.display_name != srcl.display_name:
        bad.append(f"clone_as_function of a source with LaTeX name {srcl.display_latex!r} has names {(cfl.display_name, cfl.display_latex)}")
    # clones inherit the source's assumptions when none are passed (symbol, indexed and function clones alike)
    srcp = Symbol("n", units.mass, positive=True)
    cip = clone_as_indexed(srcp)
    if cip.assumptions0 != srcp.assumptions0 or cip[cip.index].is_positive is not True:
        bad.append(f"clone_as_indexed of a positive symbol has assumptions {dict(cip.assumptions0)}; element positive: {cip[cip.index].is_positive}")
    csp = clone_as_symbol(srcp)
    if csp.assumptions0 != srcp.assumptions0 or csp.is_positive is not True:
        bad.append(f"clone_as_symbol of a positive symbol has assumptions {dict(csp.assumptions0)}")
    # ... for every kind of source and every kind of clone, and for assumption sets other than `positive`
    for kw in ({"positive": True}, {"integer": True, "nonnegative": True}, {"negative": True}, {"commutative": False}, {"real": True}):
        for sn, src_ in (("Symbol", Symbol("n", units.mass, **kw)), ("IndexedSymbol", IndexedSymbol("n", None, units.mass, **kw))):
            for cn, mk in (("clone_as_symbol", lambda s_: clone_as_symbol(s_)), ("clone_as_indexed", lambda s_: clone_as_indexed(s_)),
                           ("clone_as_symbol with a subscript", lambda s_: clone_as_symbol(s_, subscript="1"))):
                c_ = mk(src_)
                if c_.assumptions0 != src_.assumptions0:
                    bad.append(f"{cn} of a {sn} created with {kw} has assumptions {dict(c_.assumptions0)}, the source {dict(src_.assumptions0)}")
                if c_.dimension is not src_.dimension:
                    bad.append(f"{cn} of a {sn} lost the dimension")
    cnp = clone_as_indexed(srcp, positive=False, real=True)
    if cnp.is_positive is not False:
        bad.append("explicitly passed assumptions of an indexed clone are not honoured")
    src = Symbol("m", units.mass)
    ci = clone_as_indexed(src)
    ci2 = clone_as_indexed(src)
    e = (src + ci[ci.index]).subs(src, 5)
    if e != 5 + ci[ci.index] or ci == ci2 or ci.dimension is not src.dimension or ci.display_name != "m":
        bad.append(f"indexed clone aliases its source or another clone: {e}, equal={ci == ci2}")
    cs1, cs2 = CoordinateSystem(), CoordinateSystem()
    if cs1.coord_system == cs2.coord_system or str(cs1.coord_system) == str(cs2.coord_system):
        bad.append("two coordinate systems alias")
    cs3 = coordinates_transform(cs1, CoordinateSystem.System.CYLINDRICAL)
    cs4 = coordinates_transform(cs1, CoordinateSystem.System.SPHERICAL)
    cs5 = coordinates_transform(cs1, CoordinateSystem.System.CYLINDRICAL)
    names = [str(c.coord_system) for c in (cs1, cs2, cs3, cs4, cs5)]
    if len(set(names)) != 5 or cs3.coord_system == cs4.coord_system or cs3.coord_system == cs5.coord_system:
        bad.append(f"coordinate systems created through the library alias: {names}")
    z3_, ph4 = cs3.coord_system.base_scalars()[2], cs4.coord_system.base_scalars()[2]
    if (z3_ + 2 * ph4).subs(ph4, 1) != z3_ + 2 or sp.diff(z3_ * ph4, ph4) != z3_:
        bad.append("base scalars of two transformed systems alias under subs/diff")
    # rotated systems: a new object for EVERY angle, the boundary values 0 / 0.0 / theta - theta included
    from symplyphysics.core.coordinate_systems.coordinate_systems import coordinates_rotate
    theta = sp.Symbol("theta", real=True)
    for ang in (0, sp.S.Zero, 0.0, theta - theta, sp.pi / 3, theta, 2 * sp.pi):
        csr = coordinates_rotate(cs1, ang, cs1.coord_system.k)
        csr2 = coordinates_rotate(cs1, ang, cs1.coord_system.k)
        xr, x1 = csr.coord_system.base_scalars()[0], cs1.coord_system.base_scalars()[0]
        if csr is cs1 or csr.coord_system == cs1.coord_system or csr.coord_system == csr2.coord_system or xr == x1 \
                or (x1 + 2 * xr).subs(xr, 1) != x1 + 2 or sp.diff(x1 * xr, xr) != x1:
            bad.append(f"system rotated by {ang!r} aliases its source (or a second rotation by the same angle)")
    v1, v2 = VectorSymbol("v"), VectorSymbol("v")
    if v1 == v2:
        bad.append("two VectorSymbols with equal display names alias")
    # a quantity built FROM another quantity is a new object; the source keeps its value, dimension and display name
    qL = Quantity(5 * units.meter, display_symbol="L")
    qW = Quantity(qL)
    qN = Quantity(qL, display_symbol="W")
    xs = sp.Symbol("xs")
    if qW is qL or qW == qL or qN == qL or (qL + qW).subs(qL, xs) != xs + qW or sp.diff(qL * qW, qL) != qW:
        bad.append(f"Quantity(existing quantity) aliases its source: L + Quantity(L) = {qL + qW}, after subs {(qL + qW).subs(qL, xs)}")
    if qL.display_name != "L" or S.print_expression(qL) != "L" or qW.scale_factor != qL.scale_factor or qW.dimension != qL.dimension:
        bad.append(f"wrapping a quantity changed the source or lost its value: source now prints {S.print_expression(qL)!r} (display name {qL.display_name!r})")
    # human-readable printing of quantities under every combination of given names: never the generated internal name
    for kw in ({}, {"display_symbol": "R_0"}, {"display_latex": "R_{0}"}, {"display_symbol": "R_0", "display_latex": "R_{0}"}):
        qq = Quantity(7 * units.meter, **kw)
        for txt in (str(qq), S.print_expression(qq), S.print_expression(2 * qq + a), code_str(qq * a)):
            if re.search(r"(SYM|FUN|QTY)\d", txt):
                bad.append(f"quantity created with {kw}: generated internal name shown in {txt!r}")
    c1 = clone_as_symbol(a, subscript="1")
    c2 = clone_as_function(a, [b], subscript="2", display_latex="X")
    for obj, want_code, want_latex in ((a, "x", "x"), (c1, "x_1", "x_{1}"), ):
        if code_str(obj) != want_code or want_latex not in latex_str(obj):
            bad.append(f"printing of {obj.name}: code {code_str(obj)!r} latex {latex_str(obj)!r}")
    for expr in (a + b * c1, c2(b) / a, q1 * a):
        for txt in (code_str(expr), latex_str(expr), S.print_expression(expr)):
            if re.search(r"(SYM|FUN|QTY)\d", txt):
                bad.append(f"generated internal name shown in printed text {txt!r}")
    if c1.dimension is not a.dimension or c1.assumptions0 != a.assumptions0 or c2.dimension is not a.dimension:
        bad.append("clone lost dimension or assumptions")
    # clone_as_function display names (CrossHair cannot carry symbolic strings through the Function metaclass: concrete here)
    for nm, lx, sub, want in ((None, None, None, ("x", "x")), (None, None, "", ("x", "x")), ("y", None, "2", ("y_2", "x_{2}")), (None, "X", "ab", ("x_ab", "X_{ab}"))):
        cf = clone_as_function(a, [b], display_symbol=nm, display_latex=lx, subscript=sub)
        if (cf.display_name, cf.display_latex) != want or cf.dimension is not a.dimension:
            bad.append(f"clone_as_function names {(cf.display_name, cf.display_latex)} != {want}")
    return bad


def concrete_o4_o5(ctx):
    import multiprocessing as mp
    states = [0, 8, 9, 98, 99, 998, 999, 9998, 99999, 999998]
    for st in states:
        cx = mp.get_context("fork")
        q = cx.Queue()

        def child(q=q, st=st):
            try:
                q.put(o4_o5_cases(st))
            except Exception as e:
                q.put([f"raised {type(e).__name__}: {e}"])
        p = cx.Process(target=child)
        p.start()
        try:
            bad = q.get(timeout=120)
        except Exception:
            bad = ["timeout"]
        p.join(5)
        if bad:
            ctx.violation(f"C09:O4O5:{bad[0][:60]}", f"counter state {st}: " + "; ".join(bad)[:500], REPLAY_O4.format(root=ROOT, state=st))
        else:
            ctx.ob(f"O4/O5 at counter state {st}", "discharged", nontrivial=False)
