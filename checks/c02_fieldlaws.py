"""C02, clause "where a vector law is offered solved for different unknowns, the forms are mutual inverses" -- for the catalogue modules whose
law functions take FIELDS (the two Maxwell curl equations).  checks/c02_vectors.py pairs functions over plain vectors; here an unknown of one
form is a derived field (curl H, dD/dt, curl E, dB/dt), so the pairing is written out per module:

  curl H = j + dD/dt  : j := conductivity_current_density_vector_law(H, D);  magnetic_intensity_rotor_law(D, j) must be curl H and
                        electric_induction_time_derivative_law(H, j) must be dD/dt
  curl E = -dB/dt     : X := magnetic_induction_derivative_law(E) is offered as dB/dt; for a field B with dB/dt = X (B = t X, E static),
                        electric_intensity_curl_law(B) must be curl E

The fields are generic: every component an undefined function of (x, y, z, t); the library's results are polynomials in their first
derivatives (jets = free Reals), compared by z3 with the TEXTBOOK curl / time derivative written out here (not the library's operators).
"""
from __future__ import annotations

import sympy as sp
import z3
from sympy.vector.scalar import BaseScalar

from vlib import catalogue
from vlib.s2smt import Enc, Query, Unencodable

MA = "symplyphysics.laws.electricity.maxwell_equations.curl_of_magnetic_field_is_conductivity_current_density_and_electric_induction_derivative"
MF = "symplyphysics.laws.electricity.maxwell_equations.derivative_of_magnetic_induction_in_time_is_rotor_of_electric_intensity"


def base_scalar_handler(enc, e):
    if isinstance(e, BaseScalar):
        return enc.var(("bs", str(e)), stem=str(e).replace(".", "_"))
    return None


def textbook_curl(F, xs):
    x, y, z = xs
    return [sp.diff(F[2], y) - sp.diff(F[1], z), sp.diff(F[0], z) - sp.diff(F[2], x), sp.diff(F[1], x) - sp.diff(F[0], y)]


def pad(c):
    return list(c) + [sp.S.Zero] * (3 - len(list(c)))


def comps_of(obj):
    """components (expressions of the base scalars) of a Vector or of a VectorField"""
    if hasattr(obj, "apply_to_basis"):
        obj = obj.apply_to_basis()
    return pad(obj.components)


def cases(concrete=None):
    """[(name, got components, wanted components)]; `concrete(i, xs, t)` -> expression replaces the i-th generic component (replay)"""
    from symplyphysics.core.coordinate_systems.coordinate_systems import CoordinateSystem
    from symplyphysics.core.fields.vector_field import VectorField
    from symplyphysics.core.vectors.vectors import Vector
    out = []
    C = CoordinateSystem(CoordinateSystem.System.CARTESIAN)
    xs = C.coord_system.base_scalars()
    # curl H = j + dD/dt
    mod = catalogue.load(MA)
    t = mod.time
    gen = (lambda nm, i, static=False: (concrete(nm, i, xs, None if static else t) if concrete else sp.Function(f"{nm}{i}")(*xs, *([] if static else [t]))))
    H = [gen("H", i) for i in range(3)]
    D = [gen("D", i) for i in range(3)]
    Hf, Df = VectorField.from_vector(Vector(H, C)), VectorField.from_vector(Vector(D, C))
    j = mod.conductivity_current_density_vector_law(Hf, Df)
    out.append(("ampere-maxwell: magnetic_intensity_rotor_law(D, j(H, D)) == curl H", comps_of(mod.magnetic_intensity_rotor_law(Df, j)), textbook_curl(H, xs)))
    out.append(("ampere-maxwell: electric_induction_time_derivative_law(H, j(H, D)) == dD/dt", comps_of(mod.electric_induction_time_derivative_law(Hf, j)),
                [sp.diff(c, t) for c in D]))
    out.append(("ampere-maxwell: j(H, D) == curl H - dD/dt (the documented law)", pad(j.components), [a - sp.diff(b, t) for a, b in zip(textbook_curl(H, xs), D)]))
    # curl E = -dB/dt
    mod = catalogue.load(MF)
    t = mod.time
    E = [gen("E", i, static=True) for i in range(3)]
    Ef = VectorField.from_vector(Vector(E, C))
    X = comps_of(mod.magnetic_induction_derivative_law(Ef))            # offered as dB/dt
    Bf = VectorField.from_vector(Vector([t * c for c in X], C))          # a field whose time derivative is exactly X
    out.append(("faraday: electric_intensity_curl_law(B) == curl E for dB/dt = magnetic_induction_derivative_law(E)",
                comps_of(mod.electric_intensity_curl_law(Bf)), textbook_curl(E, xs)))
    out.append(("faraday: magnetic_induction_derivative_law(E) == -curl E (the documented law curl E = -dB/dt)", X, [-c for c in textbook_curl(E, xs)]))
    return out


REPLAY = r'''
import sys
import sympy as sp
from checks import c02_fieldlaws as FL
idx = {idx!r}
def concrete(nm, i, xs, t):
    x, y, z = xs
    k = (sum(map(ord, nm)) + 3 * i) % 5 + 1
    e = k * x * y + (i + 2) * y * z**2 - (k + i) * z * x + sp.sin(x) * (i + 1) + y
    return e if t is None else e + (k + 1) * t * x + t**2 * (i + 1) * y
name, got, want = FL.cases(concrete)[idx]
pt = None
bad = False
for g, w in zip(got, want):
    d = sp.sympify(g) - sp.sympify(w)
    syms = sorted(d.free_symbols | d.atoms(sp.vector.scalar.BaseScalar), key=str)
    val = sp.N(d.doit().subs({{s: sp.Rational(3 + 2 * n, 5 + n) for n, s in enumerate(syms)}}), 25)
    print(name, ": library", sp.simplify(g), " expected", sp.simplify(w), " difference at a point", val)
    if abs(val) > 1e-15: bad = True
if bad:
    print("REPRODUCED"); sys.exit(1)
'''


def run(ctx, timeout):
    q = Query(ctx, timeout_ms=timeout)
    try:
        cs = cases()
    except Exception as e:
        ctx.ob("fieldlaws: Maxwell curl equations, solved forms", "unencoded", f"{type(e).__name__}: {str(e)[:120]}")
        return
    for idx, (name, got, want) in enumerate(cs):
        enc = Enc()
        enc.extra_handlers.append(base_scalar_handler)
        try:
            diffs = [enc.tr(sp.sympify(g).doit()) != enc.tr(sp.sympify(w).doit()) for g, w in zip(got, want)]
        except Unencodable as e:
            ctx.ob("fieldlaws:" + name, "unencoded", str(e))
            continue
        r, m = q.check(enc.assume + enc.side + enc.domain + [z3.Or(diffs)])
        if r == "unsat":
            ctx.ob("fieldlaws:" + name, "discharged", sample={"obligation": name, "library": [str(g)[:80] for g in got], "verdict": "unsat"})
        elif r == "sat":
            ctx.violation("C02:fieldlaws:" + name, f"{name}: the library gives {[str(g)[:70] for g in got]}, expected {[str(w)[:70] for w in want]}", REPLAY.format(idx=idx))
        else:
            ctx.ob("fieldlaws:" + name, "inconclusive", "unknown")
