"""C02 - calculate_* functions return solutions of the law they belong to (engines L + S).

Every decorated calculate_* function of the catalogue is CALLED (decorators included) with quantities whose scale factors
are verification scalars (z3 Reals, positive domain in the quick tier); the returned quantity's scale factor is a SymPy
expression over them.  The module's published equation(s) containing the result symbol are instantiated with the argument
and result scale factors (constants by their own scale factors, all in the library's internal unit system, which is
consistent because the equations are homogeneous: C01) and z3 decides residual != 0 over all magnitudes.
"""
from __future__ import annotations

import ast
import inspect
import itertools
import textwrap
from fractions import Fraction

import sympy as sp
import z3

from vlib import catalogue, lift, qspec
from vlib.lift import Session, explore, make_quantity, rebound, standard_bindings, LiftUnsupported, lifted_float, VS
from vlib.par import pmap, with_timeout, ItemTimeout
from vlib.s2smt import Unencodable, model_value, qv

LEVEL = "other"
TIMEOUT_MS = 10000
CALL_TIMEOUT = 40


def nice(expr):
    """read every float literal as the short rational it was written as (0.0869565217391304 -> 2/23, 6.6743e-11 -> 66743/10^15):
    function body and published law fold the same decimal constants in different orders; comparing them as exact rationals keeps
    binary rounding (1e-16) from being amplified without bound next to poles and cancellations"""
    expr = sp.sympify(expr)
    reps = {}
    for f in expr.atoms(sp.Float):
        if not f.is_finite or f == 0:
            continue
        fr = Fraction(float(f))
        e = len(str(abs(fr.numerator))) - len(str(fr.denominator))
        m = fr / (Fraction(10) ** e)
        cand = m.limit_denominator(10**6) * (Fraction(10) ** e)
        if abs(cand - fr) <= abs(fr) / 10**13:
            reps[f] = sp.Rational(cand.numerator, cand.denominator)
            continue
        # constants written with pi and folded to a double by SymPy (1.25 / pi, 4 * pi): read them back as r*pi or r/pi
        for k, sym in ((1, sp.pi), (-1, 1 / sp.pi)):
            g = Fraction(float(f) * float(sp.pi) ** (-k))
            c2 = g.limit_denominator(10**4)
            if c2 != 0 and abs(c2 - g) <= abs(g) / 10**13:
                reps[f] = sp.Rational(c2.numerator, c2.denominator) * sym
                break
    return expr.xreplace(reps) if reps else expr


def sym_float(value=0):
    """float() for C02: symbolic scalars stay SymPy expressions (they flow on through SymPy arithmetic), numbers are converted"""
    try:
        v = sp.sympify(value)
        if isinstance(v, sp.Basic) and v.free_symbols and lift.only_vs(v):
            return v
    except (sp.SympifyError, TypeError):
        pass
    return float(value)


def sym_int(value=0, *a):
    """int() for C02: a symbolic scalar stays a SymPy expression -- ceiling/floor as they are, anything else truncated toward zero
    (floor on the non-negative branch, ceiling on the negative one: a fork)"""
    try:
        v = sp.sympify(value)
    except (sp.SympifyError, TypeError):
        return int(value, *a)
    if isinstance(v, sp.Basic) and v.free_symbols and lift.only_vs(v):
        if isinstance(v, (sp.ceiling, sp.floor)):
            return v
        return sp.floor(v) if bool(lift.SymBool(lift.S().z(v) >= 0)) else sp.ceiling(v)
    return int(value, *a)


class ForkFloat(lift.SymFloat):
    """comparisons decide immediately (fork) and return a plain bool, as SymPy's is_ge dispatch expects"""

    def __lt__(self, o): return bool(lift.SymFloat.__lt__(self, o))
    def __le__(self, o): return bool(lift.SymFloat.__le__(self, o))
    def __gt__(self, o): return bool(lift.SymFloat.__gt__(self, o))
    def __ge__(self, o): return bool(lift.SymFloat.__ge__(self, o))
    __hash__ = None


def rel_bool(self):
    """truth value of a SymPy relational over verification scalars: a fork point"""
    from sympy.physics.units import Quantity as SymQuantity
    try:
        e = self.subs({q: q.scale_factor for q in self.atoms(SymQuantity)}) if self.atoms(SymQuantity) else self
        if e.free_symbols and lift.only_vs(e):
            return bool(lift.SymBool(lift.S().enc.cond(e)))
    except (Unencodable, LiftUnsupported):
        pass
    raise TypeError("cannot determine truth value of Relational: %s" % self)


def bindings(mod=None):
    from symplyphysics.core import convert as CV
    from symplyphysics.core.symbols import quantities as QT
    orig_scale_factor = QT.scale_factor

    def lifted_scale_factor(q):
        """used by Quantity comparisons (_eval_is_ge): a number whose comparisons fork"""
        sf = getattr(q, "scale_factor", q)
        try:
            sf = sp.sympify(sf)
            if sf.free_symbols and lift.only_vs(sf):
                return ForkFloat(lift.S().z(sf), sf)
        except (sp.SympifyError, TypeError):
            pass
        return orig_scale_factor(q)

    def is_positive(self):
        sf = self.scale_factor
        if sf.free_symbols:
            return sf.is_positive
        try:
            return orig_scale_factor(self) >= 0
        except TypeError:
            return False
    # SymPy captures assumption handlers in cls._prop_handler at class creation: rebind there as well
    extra = [(mod, "float", sym_float), (mod, "int", sym_int)] if mod is not None else []
    return standard_bindings() + extra + [(CV, "float", sym_float), (QT, "float", sym_float), (QT, "scale_factor", lifted_scale_factor),
                                          (QT.Quantity, "_eval_is_positive", is_positive),
                                          (QT.Quantity._prop_handler, "positive", is_positive),
                                          (sp.core.relational.Relational, "__bool__", rel_bool)]


def subs_mapping(fn):
    """{law symbol name (module attribute): parameter name} read from `.subs({...})` dictionaries / `.subs(sym, param_)` calls in the body"""
    out = {}
    try:
        src = textwrap.dedent(inspect.getsource(fn))
        tree = ast.parse(src)
    except Exception:
        return out
    params = set(inspect.signature(fn).parameters)
    for node in ast.walk(tree):
        if isinstance(node, ast.Call) and isinstance(node.func, ast.Attribute) and node.func.attr in ("subs", "xreplace"):
            if len(node.args) == 1 and isinstance(node.args[0], ast.Dict):
                for k, v in zip(node.args[0].keys, node.args[0].values):
                    if isinstance(v, ast.Name) and v.id in params and k is not None:
                        out[ast.unparse(k)] = v.id
            elif len(node.args) == 2 and isinstance(node.args[1], ast.Name) and node.args[1].id in params:
                out[ast.unparse(node.args[0])] = node.args[1].id
    return out


def resolve(mod, expr_src):
    try:
        return eval(expr_src, vars(mod))  # names of the module's own symbols as written in its source
    except Exception:
        return None


def check_function(item):
    modname, fname, domain = item
    from symplyphysics.core.symbols.symbols import DimensionSymbol, Function as SFunction
    from symplyphysics.core.symbols.quantities import Quantity
    from symplyphysics.core.dimensions.dimensions import AnyDimension
    from sympy.physics.units import Quantity as SymQuantity, Dimension
    name = f"{modname.replace('symplyphysics.', '')}.{fname}[{domain}]"
    out = {"name": name, "item": item, "queries": 0, "solver_s": 0.0}
    try:
        mod = catalogue.load(modname)
    except Exception as e:
        out.update(verdict="unencoded", why=f"module does not import: {type(e).__name__}")
        return out
    fn = getattr(mod, fname)
    info = catalogue.decorator_info(fn)
    inner = info["inner"]
    sig = inspect.signature(inner)
    from checks import c02_tuples
    if c02_tuples.is_tuple_function(mod, inner):
        return c02_tuples.check(item)          # fixed-shape tuple parameters / tuple results / Matrix equations
    eqs = [(n, e) for n, e in catalogue.public_equations(mod) if isinstance(e, sp.Equality)]
    if not eqs:
        out.update(verdict="skip", why="module exports no equation object: judged against its law FUNCTION by checks/c02_vecwrap.py")
        return out
    out_sym = info["output"] if isinstance(info["output"], sp.Symbol) else None
    # not the first use of the function in this process: an ordinary call with other (concrete) arguments has already happened, so
    # whatever the function might keep from one call to the next (a result, a rewritten module-level equation) would show in the
    # run that is judged.  The published equations were read BEFORE that call.
    published = [(n_, sp.srepr(e_)) for n_, e_ in catalogue.public_equations(mod)]
    warmup(fn, info, sig)
    if [(n_, sp.srepr(e_)) for n_, e_ in catalogue.public_equations(mod)] != published:
        out.update(verdict="candidate", ename="P:", why="an ordinary call of the function rewrote the module's published equation: later calls are answered from the first call's numbers")
        return out
    ses = Session(None, timeout_ms=TIMEOUT_MS)
    ses.clear_sympy_cache = True
    ses.enc.extra_handlers.append(qspec.quantity_handler)
    with ses.active(), rebound(*bindings(mod)):
        args = {}
        scal = {}
        par2sym = {}
        for pname, p in sig.parameters.items():
            spec = info["inputs"].get(pname)
            ann = str(p.annotation)
            if isinstance(spec, (list, tuple)) or "Sequence" in ann or "list" in ann or "Vector" in ann or "tuple" in ann.lower():
                out.update(verdict="unencoded", why=f"parameter {pname}: sequence/vector argument")
                return out
            if p.kind in (p.VAR_POSITIONAL, p.VAR_KEYWORD):
                out.update(verdict="unencoded", why="variadic parameters")
                return out
            s = VS(f"a_{pname}", positive=True) if domain == "positive" else VS(f"a_{pname}")
            scal[pname] = s
            if spec is None:
                if "int" in ann:
                    out.update(verdict="unencoded", why=f"parameter {pname}: integer argument")
                    return out
                args[pname] = s          # plain float parameter: dimensionless number
                continue
            d = spec.dimension if isinstance(spec, DimensionSymbol) else spec
            if not isinstance(d, Dimension) or isinstance(d, AnyDimension):
                out.update(verdict="unencoded", why=f"parameter {pname}: wildcard/unsupported declared dimension")
                return out
            args[pname] = make_quantity(s, d.subs("angle", 1) if hasattr(d, "subs") else d)
            if isinstance(spec, sp.Symbol) and isinstance(spec, DimensionSymbol):
                par2sym[pname] = spec
        # parameters whose law symbol is named only in the body
        sm = subs_mapping(inner)
        for src, pname in sm.items():
            if pname not in par2sym:
                obj = resolve(mod, src)
                if isinstance(obj, sp.Symbol) or isinstance(obj, sp.core.function.AppliedUndef):
                    par2sym[pname] = obj
        if domain == "positive":
            ses.assume += [ses.z(s) > 0 for s in scal.values()]

        def call():
            pos = [args[n] for n, p in sig.parameters.items() if p.kind in (p.POSITIONAL_ONLY, p.POSITIONAL_OR_KEYWORD)]
            kw = {n: args[n] for n, p in sig.parameters.items() if p.kind == p.KEYWORD_ONLY}
            return fn(*pos, **kw)
        try:
            paths = with_timeout(lambda: explore(call, max_paths=40), CALL_TIMEOUT)
        except ItemTimeout:
            out.update(verdict="unencoded", why="symbolic call did not finish in time")
            return out
        except (LiftUnsupported, Unencodable) as e:
            out.update(verdict="unencoded", why=f"lift: {str(e)[:70]}")
            return out
        except RecursionError:
            out.update(verdict="unencoded", why="recursion in symbolic call")
            return out
        rets = [p for p in paths if p.kind == "ret"]
        if not rets:
            why = paths[0].value if paths else "no path"
            out.update(verdict="unencoded", why=f"symbolic call raises on every path: {type(why).__name__}: {str(why)[:60]}")
            return out
        INF = VS("oo_sentinel", positive=True)
        ses.assume.append(ses.z(INF) > 10**30)
        try:
            body_src = inspect.getsource(inner)
        except Exception:
            body_src = ""
        magnitude_allowed = "abs(" in body_src or "Abs(" in body_src
        verdicts = []
        for p in rets:
            res = p.value
            if isinstance(res, SymQuantity):
                rs = res.scale_factor
            elif isinstance(res, (int, float, sp.Basic, lift.SymFloat)):
                rs = res.expr if isinstance(res, lift.SymFloat) and res.expr is not None else (res if not isinstance(res, lift.SymFloat) else None)
            else:
                rs = None
            if rs is None:
                verdicts.append(("unencoded", f"result type {type(res).__name__}"))
                continue
            rs = nice(sp.sympify(rs))
            if rs.has(sp.oo, -sp.oo):
                rs = rs.xreplace({sp.oo: INF, -sp.oo: -INF})       # infinite results (hard-sphere potentials): a huge sentinel value
            stray = [s for s in rs.free_symbols if not isinstance(s, VS)]
            if stray:
                verdicts.append(("candidate", f"returned value still depends on unbound symbols {stray}", p))
                continue
            # magnitude / rounded-up results: the law is asserted for the inner solution
            wrapped = None
            if isinstance(rs, sp.Abs):
                wrapped, core = "Abs", rs.args[0]
            elif isinstance(rs, sp.ceiling):
                wrapped, core = "ceiling", rs.args[0]
            else:
                core = rs
            judged = False
            for ename, eq in eqs:
                if ename.split("[")[0] not in ("law", "definition", "condition", "conditions", "derived_law"):
                    continue          # "the module's published equation": not the public intermediate steps of in-module derivations
                if out_sym is not None and not eq.has(out_sym):
                    continue          # the function declares its result symbol: only equations about that symbol are "its law"
                target = out_sym if out_sym is not None and eq.has(out_sym) else None
                sub = {}
                for pname, sym in par2sym.items():
                    sub[sym] = scal[pname]
                free = [s for s in (eq.lhs - eq.rhs).free_symbols if s not in sub and not isinstance(s, VS)]
                if target is None:
                    # result symbol = the only unmapped symbol of the equation
                    if len(free) == 1:
                        target = free[0]
                    else:
                        continue
                if target in sub:
                    continue
                free = [s for s in free if s != target]
                if free:
                    continue
                if (eq.lhs - eq.rhs).has(sp.Derivative, sp.Integral, sp.Sum, sp.Product) or (eq.lhs - eq.rhs).atoms(sp.core.function.AppliedUndef):
                    continue
                judged = True
                resid_expr = eq.lhs - eq.rhs
                reps = {q: q.scale_factor for q in resid_expr.atoms(SymQuantity)}
                sub2 = dict(sub)
                sub2[target] = core
                try:
                    def inst(side, tval):
                        e_ = nice(side.subs(reps)).subs({**sub, target: tval}, simultaneous=True)
                        return e_.xreplace({sp.oo: INF, -sp.oo: -INF}) if e_.has(sp.oo, -sp.oo) else e_

                    def zabs1(e_):
                        """|re| + |im| of an instantiated expression (complex-valued laws: impedances, admittances) as a z3 term"""
                        if e_.has(sp.I):
                            parts = sp.expand_complex(e_).as_real_imag()
                        else:
                            parts = (e_,)
                        zs = [ses.z(x) for x in parts if x != 0]
                        return z3.Sum([z3.If(t >= 0, t, -t) for t in zs]) if zs else z3.RealVal(0)

                    def far(tval):
                        Le, Re = inst(eq.lhs, tval), inst(eq.rhs, tval)
                        az = zabs1(Le - Re)
                        # numerical-precision form: |lhs - rhs| <= 1e-9 * (sum of the magnitudes of the top-level terms of both sides);
                        # the terms, not the sides, set the scale so that cancellation to ~0 (log(1), a - a) keeps a meaningful tolerance
                        mags = []
                        for side in (eq.lhs, eq.rhs):
                            for t in sp.Add.make_args(side):      # terms of the published equation, instantiated one by one
                                mags.append(zabs1(inst(t, tval)))
                        return z3.And(az > qv(Fraction(1, 10**9)) * z3.Sum(mags), az > 0)
                    goal = [far(core)]
                    if wrapped is None and magnitude_allowed:
                        goal.append(far(-core))          # the function documents/returns a magnitude: result = |solution|
                        other = eq.rhs if eq.lhs == target else eq.lhs if eq.rhs == target else None
                        if other is not None and not other.has(target):
                            o_ = inst(other, core)
                            if o_.has(sp.I):
                                # complex solution: magnitude = modulus, result >= 0 and result**2 == re**2 + im**2
                                re_, im_ = sp.expand_complex(o_).as_real_imag()
                                m2 = ses.z(re_) * ses.z(re_) + ses.z(im_) * ses.z(im_)
                                c_ = ses.z(core)
                                d_ = c_ * c_ - m2
                                goal.append(z3.Or(c_ < 0, z3.If(d_ >= 0, d_, -d_) > qv(Fraction(1, 10**9)) * (c_ * c_ + m2)))
                    r, m = ses.check(p.pc + goal)
                except (Unencodable, LiftUnsupported) as e:
                    verdicts.append(("unencoded", f"residual of {ename}: {str(e)[:60]}"))
                    continue
                except Exception as e:
                    verdicts.append(("unencoded", f"residual of {ename}: {type(e).__name__}"))
                    continue
                if r == "sat":
                    # the function may itself exchange the roles of two same-dimension arguments on this path (min/max by magnitude)
                    for p1, p2 in itertools.combinations([pn for pn in par2sym if pn in info["inputs"]], 2):
                        s1, s2 = info["inputs"][p1], info["inputs"][p2]
                        d1 = getattr(s1, "dimension", s1)
                        d2 = getattr(s2, "dimension", s2)
                        if d1 != d2:
                            continue
                        # only an exchange the function itself decides on: this path must have branched on a comparison OF THESE TWO
                        # arguments (min/max by magnitude); a fork about other arguments does not license swapping them
                        from z3 import z3util
                        za, zb = str(ses.z(scal[p1])), str(ses.z(scal[p2]))
                        if not any({za, zb} == {str(v) for v in z3util.get_vars(c_)} for c_ in p.pc):
                            continue
                        saved = dict(sub)
                        sub[par2sym[p1]], sub[par2sym[p2]] = saved[par2sym[p2]], saved[par2sym[p1]]
                        try:
                            g2 = [far(core)] + ([far(-core)] if (wrapped is None and magnitude_allowed) else [])
                            r2, _ = ses.check(p.pc + g2)
                        finally:
                            sub.clear()
                            sub.update(saved)
                        if r2 == "unsat" and p.pc:
                            r = "unsat-swapped"
                            break
                if r == "sat" and out_sym is None:
                    verdicts.append(("unencoded", "result symbol is not declared by the function (validate_output carries no symbol); heuristic mapping does not fit"))
                elif r in ("unsat", "unsat-swapped"):
                    verdicts.append(("discharged", ename + (f" (inside {wrapped})" if wrapped else "") + (" (argument roles exchanged on this path)" if r != "unsat" else "")))
                elif r == "sat":
                    vals = {pn: str(model_value(m, ses.z(s))) for pn, s in scal.items()}
                    verdicts.append(("candidate", f"equation {ename} is not satisfied by the returned value {rs}", p, vals, ename))
                else:
                    verdicts.append(("inconclusive", "unknown"))
            if not judged:
                verdicts.append(function_law_verdict(ses, p, info, sig, eqs, scal, core, par2sym, wrapped, magnitude_allowed, rs))
        out["queries"], out["solver_s"] = ses.queries, ses.solver_s
        kinds = [v[0] for v in verdicts]
        if "candidate" in kinds:
            c = [v for v in verdicts if v[0] == "candidate"][0]
            out.update(verdict="candidate", magnitude=magnitude_allowed, why=c[1], vals=c[3] if len(c) > 3 else {pn: "3/2" for pn in scal}, ename=c[4] if len(c) > 4 else None,
                       par2sym={k: str(v) for k, v in par2sym.items()}, result=str(rets[0].value.scale_factor if isinstance(rets[0].value, SymQuantity) else rets[0].value)[:200])
        elif "discharged" in kinds and "inconclusive" not in kinds:
            out.update(verdict="discharged", why="; ".join(v[1] for v in verdicts if v[0] == "discharged"),
                       result=str(rets[0].value.scale_factor if isinstance(rets[0].value, SymQuantity) else rets[0].value)[:160], paths=len(paths))
        elif "inconclusive" in kinds:
            out.update(verdict="inconclusive", why="unknown")
        else:
            out.update(verdict="unencoded", why=verdicts[0][1] if verdicts else "nothing judged")
    return out


def function_law_verdict(ses, p, info, sig, eqs, scal, core, par2sym, wrapped, magnitude_allowed, rs):
    """laws about functions (derivative / integral / two instants): see checks/c02_funclaws.py"""
    from checks import c02_funclaws as FL
    reason = "no published equation with a total argument/result mapping (unmapped symbols)"
    for ename, eq in eqs:
        if ename.split("[")[0] not in ("law", "definition", "condition", "conditions", "derived_law") or not FL.has_function_atoms(eq):
            continue
        fresh = lambda n: VS(n)
        try:
            variants = [FL.instantiate(info, list(sig.parameters), eq, scal, core, par2sym, fresh)]
            if wrapped is None and magnitude_allowed:
                variants.append(FL.instantiate(info, list(sig.parameters), eq, scal, -core, par2sym, fresh))
        except FL.NotApplicable as e:
            reason = f"function law {ename}: {e}"
            continue
        except Exception as e:
            reason = f"function law {ename}: instantiation raises {type(e).__name__}"
            continue
        stray = [s for alts, _ in variants for (L, R) in alts for s in (L - R).free_symbols if not isinstance(s, VS)]
        if stray:
            reason = f"function law {ename}: unmapped symbols {sorted(map(str, set(stray)))[:4]}"
            continue
        try:
            def far(L, R):
                L, R = nice(L), nice(R)
                d = ses.z(L) - ses.z(R)
                az = z3.If(d >= 0, d, -d)
                mags = []
                for t in list(sp.Add.make_args(sp.expand(L))) + list(sp.Add.make_args(sp.expand(R))):
                    tz = ses.z(t)
                    mags.append(z3.If(tz >= 0, tz, -tz))
                return z3.And(az > qv(Fraction(1, 10**9)) * z3.Sum(mags), az > 0)
            goal = [far(L, R) for alts, _ in variants for (L, R) in alts]
            side = [ses.z(sp.sympify(nz)) != 0 for _, nzs in variants[:1] for nz in nzs]
            r, m = ses.check(p.pc + side + goal)
        except (Unencodable, LiftUnsupported) as e:
            reason = f"function law {ename}: {str(e)[:60]}"
            continue
        if r == "unsat":
            return ("discharged", f"{ename} read with the straight line through the declared samples ({len(variants[0][0])} evaluation point(s))" + (f" (inside {wrapped})" if wrapped else ""))
        if r == "sat":
            vals = {pn: str(model_value(m, ses.z(s))) for pn, s in scal.items()}
            return ("candidate", f"equation {ename}, read with the straight line through the declared samples, is not satisfied by the returned value {rs}", p, vals, "F:" + ename)
        return ("inconclusive", "unknown")
    return ("unencoded", reason)


REPLAY_F = r'''
import sys, inspect
import sympy as sp
from checks import c02, c02_funclaws as FL
from vlib import catalogue
from symplyphysics import Quantity
from symplyphysics.core.symbols.symbols import DimensionSymbol
from sympy.physics.units import Quantity as SymQuantity
modname, fname, domain = {item!r}; vals = {vals!r}; ename = {ename!r}; magnitude = {magnitude!r}
mod = catalogue.load(modname); fn = getattr(mod, fname)
info = catalogue.decorator_info(fn); inner = info["inner"]; sig = inspect.signature(inner)
args = {{}}; scal = {{}}; par2sym = {{}}
for pname, p in sig.parameters.items():
    spec = info["inputs"].get(pname); v = sp.Rational(vals.get(pname, "3/2")); scal[pname] = v
    if spec is None: args[pname] = float(v); continue
    d = spec.dimension if isinstance(spec, DimensionSymbol) else spec
    args[pname] = Quantity(v, dimension=d.subs("angle", 1))
    if isinstance(spec, sp.Symbol) and isinstance(spec, DimensionSymbol): par2sym[pname] = spec
eqs = dict(catalogue.public_equations(mod))        # the published equations, read before any call
c02.warmup(fn, info, sig)                           # an earlier ordinary call with other arguments, as in the check
res = fn(**args)
rs = res.scale_factor if isinstance(res, SymQuantity) else sp.sympify(res)
print("arguments (internal scale factors):", scal, "-> result", rs)
if rs.free_symbols:
    print("REPRODUCED: result depends on unbound symbols", rs.free_symbols); sys.exit(1)
core = rs.args[0] if isinstance(rs, (sp.Abs, sp.ceiling)) else rs
eq = dict(catalogue.public_equations(mod))[ename]
ok = False
for c in ([core, -core] if magnitude else [core]):
    alts, nonzero = FL.instantiate(info, list(sig.parameters), eq, scal, c, par2sym, lambda n: sp.Rational(7, 3))
    for L, R in alts:
        Ln, Rn = sp.N(L, 30), sp.N(R, 30)
        scale = sum(abs(sp.N(t, 30)) for t in list(sp.Add.make_args(sp.expand(L))) + list(sp.Add.make_args(sp.expand(R))))
        print("equation", ename, ":", eq, "with the straight line through the samples: lhs", Ln, " rhs", Rn)
        if abs(Ln - Rn) <= 1e-6 * scale: ok = True
if not ok:
    print("REPRODUCED"); sys.exit(1)
'''


def warmup(fn, info, sig):
    """one ordinary call with concrete, dimensionally valid arguments (distinct magnitudes); whatever THE CALL raises is ignored"""
    from symplyphysics import Quantity as RealQuantity
    from symplyphysics.core.symbols.symbols import DimensionSymbol
    args = {}
    for i, (pname, p) in enumerate(sig.parameters.items()):
        spec = info["inputs"].get(pname)
        v = sp.Rational(7 + 2 * i, 4 + i)
        if spec is None or isinstance(spec, (list, tuple)):
            args[pname] = float(v)
            continue
        d = spec.dimension if isinstance(spec, DimensionSymbol) else spec
        try:
            args[pname] = RealQuantity(v, dimension=d.subs("angle", 1) if hasattr(d, "subs") else d)
        except Exception:
            return          # a declared dimension this helper cannot build a quantity for: no warm-up call
    try:
        with_timeout(lambda: fn(**args), 30)
    except ItemTimeout:
        pass
    except Exception:
        pass


REPLAY_PUBLISHED = r'''
import sys, inspect, subprocess
import sympy as sp
from checks import c02
from vlib import catalogue
from symplyphysics import Quantity
from symplyphysics.core.symbols.symbols import DimensionSymbol
modname, fname, domain = {item!r}
mod = catalogue.load(modname); fn = getattr(mod, fname)
info = catalogue.decorator_info(fn); sig = inspect.signature(info["inner"])
def args_for(shift):
    args = {{}}
    for i, (pname, p) in enumerate(sig.parameters.items()):
        spec = info["inputs"].get(pname); v = sp.Rational(5 + 3 * i + shift, 3 + i)
        if spec is None: args[pname] = float(v); continue
        d = spec.dimension if isinstance(spec, DimensionSymbol) else spec
        args[pname] = Quantity(v, dimension=d.subs("angle", 1))
    return args
val = lambda r: sp.N(getattr(r, "scale_factor", r), 15)
before = [(n, sp.srepr(e)) for n, e in catalogue.public_equations(mod)]
if len(sys.argv) > 1:                      # child: the second argument set in a process of its own
    print("@@", val(fn(**args_for(4)))); sys.exit(0)
first = val(fn(**args_for(0)))
changed = [(n, sp.srepr(e)) for n, e in catalogue.public_equations(mod)] != before
second = val(fn(**args_for(4)))
alone = subprocess.run([sys.executable, "-c", open(__file__).read() if "__file__" in globals() else "", "child"], capture_output=True, text=True).stdout if "__file__" in globals() else ""
print("published equation rewritten by a call:", changed, " first call ->", first, " second call (other arguments) ->", second)
if changed:
    print("the module's equations now read:", [str(e)[:120] for n, e in catalogue.public_equations(mod)][:3])
    print("REPRODUCED"); sys.exit(1)
'''


REPLAY = r'''
import sys, inspect
import sympy as sp
from checks import c02
from vlib import catalogue
from symplyphysics import Quantity
from symplyphysics.core.symbols.symbols import DimensionSymbol
from sympy.physics.units import Quantity as SymQuantity
modname, fname, domain = {item!r}; vals = {vals!r}; ename = {ename!r}; magnitude = {magnitude!r}
mod = catalogue.load(modname); fn = getattr(mod, fname)
info = catalogue.decorator_info(fn); inner = info["inner"]; sig = inspect.signature(inner)
args = {{}}; scal = {{}}; par2sym = {{}}
for pname, p in sig.parameters.items():
    spec = info["inputs"].get(pname); v = sp.Rational(vals.get(pname, "3/2"))
    if vals.get("__float__"): v = sp.Float(v, 30)        # probe points: double-like magnitudes, as a user would pass them (exact rationals make SymPy expand huge exact powers)
    scal[pname] = v
    if spec is None: args[pname] = float(v); continue
    d = spec.dimension if isinstance(spec, DimensionSymbol) else spec
    args[pname] = Quantity(v, dimension=d.subs("angle", 1))
    if isinstance(spec, sp.Symbol) and isinstance(spec, DimensionSymbol): par2sym[pname] = spec
for src, pname in c02.subs_mapping(inner).items():
    if pname not in par2sym:
        obj = c02.resolve(mod, src)
        if isinstance(obj, sp.Symbol): par2sym[pname] = obj
eqs = dict(catalogue.public_equations(mod))        # the published equations, read before any call
c02.warmup(fn, info, sig)                           # an earlier ordinary call with other arguments, as in the check
res = fn(**args)
rs = res.scale_factor if isinstance(res, SymQuantity) else sp.sympify(res)
print("arguments (internal scale factors):", scal, "-> result", rs)
if rs.free_symbols:
    print("REPRODUCED: result depends on unbound symbols", rs.free_symbols); sys.exit(1)
core = rs.args[0] if isinstance(rs, (sp.Abs, sp.ceiling)) else rs
bad = False
for en, eq in eqs.items():
    if ename and en != ename: continue
    out_sym = info["output"] if isinstance(info["output"], sp.Symbol) else None
    sub = {{sym: scal[pn] for pn, sym in par2sym.items()}}
    e = eq.lhs - eq.rhs
    free = [s for s in e.free_symbols if s not in sub]
    target = out_sym if (out_sym is not None and eq.has(out_sym)) else (free[0] if len(free) == 1 else None)
    if target is None or [s for s in free if s != target]: continue
    reps = {{q: q.scale_factor for q in e.atoms(SymQuantity)}}
    if rs.is_Integer and not isinstance(res, SymQuantity) and "int" in str(sig.return_annotation):
        # a function documented to return the rounded-up integer of the solution: compare with ceiling(solution of the law)
        sols = [x for x in sp.solve(sp.Eq(eq.lhs, eq.rhs).subs(reps).subs(sub, simultaneous=True), target) if sp.N(x).is_real]
        print("equation", en, "solutions for", target, ":", [sp.N(x, 20) for x in sols], " returned", rs)
        if sols and not any(sp.ceiling(x) == rs for x in sols): bad = True
        continue
    full = {{**sub, target: core}}
    def sides(full):
        # numbers go in as 40-digit floats: an exact rational raised to an exact (huge) power would be expanded digit by digit
        fl = lambda v: sp.N(v, 40) if (sp.sympify(v).is_number and sp.sympify(v).is_real and sp.sympify(v).is_finite) else v
        full = {{k: fl(v) for k, v in full.items()}}
        repsf = {{k: fl(v) for k, v in reps.items()}}
        Le = eq.lhs.subs(repsf).subs(full, simultaneous=True); Re = eq.rhs.subs(repsf).subs(full, simultaneous=True)
        scale = sum(abs(sp.N(t.subs(repsf).subs(full, simultaneous=True))) for side in (eq.lhs, eq.rhs) for t in sp.Add.make_args(side))
        return sp.N(Le), sp.N(Re), scale
    L, R, scale = sides(full)
    print("equation", en, ":", eq, " lhs", L, " rhs", R, " scale of terms", scale)
    def agree(L, R, scale):
        if any(x in (sp.oo, -sp.oo, sp.zoo, sp.nan) for x in (L, R)): return L == R
        return abs(L - R) <= 1e-6 * scale
    ok = agree(L, R, scale)
    if not ok and magnitude:
        L2, R2, scale2 = sides({{**sub, target: -core}})
        ok = agree(L2, R2, scale2)
        if not ok and not (L.is_real and R.is_real):
            ok = abs(abs(L) - abs(R)) <= 1e-6 * scale        # complex solution: the documented magnitude is the modulus
    if not ok: bad = True
if bad:
    print("REPRODUCED"); sys.exit(1)
'''


def sign_sensitive(modname):
    import importlib.util
    try:
        path = importlib.util.find_spec(modname).origin
        src = open(path, encoding="utf-8").read()
    except Exception:
        return False
    return any(t in src for t in ("sqrt(", "Abs(", "abs(", "sign(", "Max(", "Min(", "Piecewise("))


def list_functions():
    out = []
    for m in catalogue.module_names():
        try:
            mod = catalogue.load(m)
        except Exception:
            continue
        for fname, fn in catalogue.public_functions(mod):
            if fname.startswith("calculate_"):
                out.append((m, fname))
    return out


def _list(_):
    return list_functions()


def run(ctx):
    global TIMEOUT_MS
    thorough = ctx.tier == "thorough"
    TIMEOUT_MS = 60000 if thorough else 10000
    funcs = pmap(_list, [0], procs=1)[0]
    domains = ["positive", "real"] if thorough else ["positive"]
    items = [(m, f, d) for (m, f) in funcs for d in domains]
    if not thorough:
        # quick tier: all-real magnitudes as well for the modules whose source is sign-sensitive (square roots, moduli, sign, min/max)
        for m, f in funcs:
            if sign_sensitive(m):
                items.append((m, f, "real"))
    ctx.explanation = (
        "Engines L+S. Each decorated calculate_* function is called (validators included) with quantities whose scale factors are "
        "verification scalars and whose dimensions are the declared ones (angle erased); the body (solve/subs/Quantity/convert_to_float) "
        "runs natively on them; lifted predicates fork (positive domain: no zero forks). The returned scale factor is a SymPy expression; "
        "for every published equation of the module in which arguments (named by the decorator symbols or by the .subs dictionaries of the "
        "body) and result give a total substitution, z3 decides |residual| > 1e-9 * sum|terms| over ALL magnitudes: unsat = the function "
        "returns a solution of its law for every input of the domain. Abs()/ceiling() results are judged on their argument. Vector laws offered solved for "
        "different unknowns (<x>_law / <y>_law pairs) are composed on symbolic 3-vectors and z3 decides that they are mutual inverses. "
        "Laws about functions (derivative / integral / two-instant forms) are read through the samples the decorators declare (straight line "
        "through two samples; slope from *_change_ pairs), .doit(), residual decided by z3. Modules whose law is a Python function over vectors: "
        "the decorated calculate_* runs lifted on quantity vectors with symbolic components and z3 decides that it returns the law function's value.")
    ctx.functions_encoded = ["every calculate_* of the catalogue that survives lifted execution (counted in coverage)", "quantity_decorator.validate_input/validate_output",
                             "Quantity.__init__", "convert.convert_to_float"]
    ctx.stubs = list(lift.STANDARD_STUBS) + ["float() in core.convert -> identity on symbolic reals", "Quantity._eval_is_positive -> scale_factor.is_positive for symbolic quantities (the original answers False when float() fails, flipping sqrt signs)"]
    ctx.bounds = ["all magnitudes in the positive domain (quick; plus all real magnitudes for modules whose source uses sqrt/Abs/sign/Min/Max/Piecewise); all real magnitudes for every function (thorough)", "scalar Quantity / float parameters; sequences, vectors, integers: unencoded",
                  "algebraic laws with a total symbol mapping; derivative/integral laws only in the two-sample / slope / two-instant patterns of checks/c02_funclaws.py (others unencoded); sum laws unencoded",
                  "vector wrappers: non-zero vector components, positive scalars; law function chosen by name", f"z3 timeout {TIMEOUT_MS} ms, call limit {CALL_TIMEOUT} s"]
    ctx.outside = ["unit choice is covered by construction: only the scale factor reaches the body (C05/C07 decide the reduction to scale factors)", "float rounding below 1e-9 relative",
                   "vector laws: only pairs of *_law functions that take each other's result with otherwise identical parameters are paired (others listed unencoded)"]
    ctx.trusted = ["z3 nlsat", "SymPy solve/subs are executed as part of the code under test", "Sym2SMT translator", "C01 (homogeneity) for the unit-system independence of the residual"]
    res = pmap(check_function, items, chunk=2, hard_s=300 if ctx.tier == 'quick' else None)
    n_run = 0
    for r in res:
        if "error" in r:
            ctx.harness_errors.append(r["error"][-300:])
            continue
        ctx.add_solver(r["queries"], r["solver_s"])
        v = r["verdict"]
        if v == "skip":
            continue
        if v == "discharged":
            n_run += 1
            ctx.ob(r["name"], "discharged", sample={"function": r["name"], "returned_scale_factor": r.get("result"), "equations": r["why"]} if len(ctx.samples) < 10 else None)
        elif v in ("unencoded", "inconclusive"):
            ctx.ob(r["name"], v, r["why"])
        else:
            en = r.get("ename")
            if (en or "").startswith("T:"):
                from checks import c02_tuples
                ctx.violation(f"C02:{r['name']}", f"{r['name']}: {r['why']} (leaves {r.get('par2sym')})",
                              c02_tuples.REPLAY.format(item=tuple(r["item"]), vals=r.get("vals") or {}, ename=en[2:]))
                continue
            if (en or "").startswith("P:"):
                ctx.violation(f"C02:{r['name']}", f"{r['name']}: {r['why']}", REPLAY_PUBLISHED.format(item=tuple(r["item"])))
                continue
            script = REPLAY_F if (en or "").startswith("F:") else REPLAY
            fmt = lambda vals: script.format(item=tuple(r["item"]), vals=vals, ename=(en[2:] if (en or "").startswith("F:") else en), magnitude=r.get("magnitude", False))
            hit = ctx.violation(f"C02:{r['name']}", f"{r['name']}: {r['why']} (mapping {r.get('par2sym')}, returned {r.get('result')})", fmt(r.get("vals") or {}))
            if not hit and script is REPLAY:
                # the solver's model did not reproduce (transcendental laws: uninterpreted powers / logs): the obligation stays inconclusive,
                # but a few generic concrete points are still tried through the same replay -- a point that fails is a violation all the same
                names = list((r.get("vals") or {}).keys())
                for shift, scale in ((0, 1), (1, 10**8), (2, sp.Rational(1, 10**8))):      # ordinary, relativistic-size and tiny SI magnitudes
                    pt = {nm: str(scale * sp.Rational(3 + 2 * ((i + shift) % 5), 4 + i + shift)) for i, nm in enumerate(names)}
                    pt["__float__"] = "1"
                    if ctx.probe(f"C02:{r['name']}", f"{r['name']}: the law fails at the concrete point {pt} (the solver's own model was spurious)", fmt(pt)):
                        break
    from checks import c02_vectors, c02_vecwrap, c02_fieldlaws, c02_seqlaws
    c02_vectors.run(ctx, TIMEOUT_MS)
    c02_vecwrap.run(ctx, TIMEOUT_MS)
    c02_fieldlaws.run(ctx, TIMEOUT_MS)
    c02_seqlaws.run(ctx, TIMEOUT_MS)
    ctx.extra["calculate_functions"] = len(funcs)
    ctx.extra["functions_decided"] = n_run
