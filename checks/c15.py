"""C15 - experimental coordinate conversions are consistent and geometry-preserving (engine S)."""
from __future__ import annotations

import itertools

import sympy as sp
import z3

from vlib.par import pmap
from vlib.s2smt import Enc, Query, Unencodable, model_value

LEVEL = "other"
NAMES = ["cart", "cyl", "sph"]


def systems():
    from symplyphysics.core.experimental.coordinate_systems import (CartesianCoordinateSystem, CylindricalCoordinateSystem, SphericalCoordinateSystem)
    return {"cart": CartesianCoordinateSystem(), "cyl": CylindricalCoordinateSystem(), "sph": SphericalCoordinateSystem()}


def textbook_position(name, q):
    """Cartesian position of the point with coordinates q (ISO convention used by the module: spherical = (r, polar theta, azimuth phi))"""
    if name == "cart":
        return list(q)
    if name == "cyl":
        rho, phi, z = q
        return [rho * sp.cos(phi), rho * sp.sin(phi), z]
    r, th, ph = q
    return [r * sp.sin(th) * sp.cos(ph), r * sp.sin(th) * sp.sin(ph), r * sp.cos(th)]


def textbook_basis(name, q):
    """rows: local unit vectors in Cartesian components"""
    if name == "cart":
        return sp.eye(3)
    if name == "cyl":
        _, phi, _ = q
        return sp.Matrix([[sp.cos(phi), sp.sin(phi), 0], [-sp.sin(phi), sp.cos(phi), 0], [0, 0, 1]])
    _, th, ph = q
    return sp.Matrix([[sp.sin(th) * sp.cos(ph), sp.sin(th) * sp.sin(ph), sp.cos(th)],
                      [sp.cos(th) * sp.cos(ph), sp.cos(th) * sp.sin(ph), -sp.sin(th)],
                      [-sp.sin(ph), sp.cos(ph), 0]])


def domain(enc, name, sys_):
    """z3 constraints: the system's domain away from singularities; angle symbols are bound to (sin, cos) pairs with ranges"""
    q = sys_.base_scalars
    cons = []
    pi = enc.get_pi()
    if name == "cart":
        x, y, z = (enc.tr(s) for s in q)
        cons.append(x * x + y * y > 0)
    elif name == "cyl":
        cons.append(enc.tr(q[0]) > 0)
        v, s, c = enc.bind_angle(q[1])
        cons += [v > -pi, v <= pi]
    else:
        cons.append(enc.tr(q[0]) > 0)
        v, s, c = enc.bind_angle(q[1])
        cons += [v > 0, v < pi, s > 0]
        v2, s2, c2 = enc.bind_angle(q[2])
        cons += [v2 > -pi, v2 <= pi]
    return cons


def angle_facts(enc):
    """sound facts tying bound angle symbols to their (sin, cos): sign of sine on (-pi, pi], and equality lemma"""
    pi = enc.get_pi()
    out = []
    for (a, s, c) in getattr(enc, "angle_vars", []):
        out += [z3.Implies(z3.And(a > 0, a < pi), s > 0), z3.Implies(z3.And(a > -pi, a < 0), s < 0),
                z3.Implies(a == 0, z3.And(s == 0, c == 1)), z3.Implies(a == pi, z3.And(s == 0, c == -1)),
                z3.Implies(z3.And(a > -pi / 2, a < pi / 2), c > 0), z3.Implies(z3.And(a > pi / 2, a <= pi), c < 0),
                z3.Implies(z3.And(a > -pi, a < -pi / 2), c < 0)]
    return out + enc.angle_equal_lemmas()


def coeff_matrix(mapping, old_vecs, new_vecs):
    rows = []
    for ov in old_vecs:
        e = sp.expand(mapping[ov]) if ov in mapping else ov
        row = []
        rest = e
        for nv in new_vecs:
            c = e.coeff(nv)
            row.append(c)
            rest = rest - c * nv
        if sp.expand(rest) != 0:
            raise Unencodable(f"base-vector image is not a combination of the new base vectors: {rest}")
        rows.append(row)
    return sp.Matrix(rows)


def scalars_in_terms_of(ss, a, b):
    """substitution {a-scalar: expression in b-scalars} (real code)"""
    from symplyphysics.core.experimental.coordinate_systems import express_base_scalars
    return dict(express_base_scalars(ss[a], ss[b]))


def decide(q, enc, name, diffs, dom, samples=None):
    import time as _t
    t0 = _t.time()
    try:
        ts = [enc.tr(sp.sympify(d)) if not z3.is_expr(d) else d for d in diffs]
    except Unencodable as e:
        return {"name": name, "verdict": "unencoded", "why": str(e)}
    base = enc.assume + enc.side + enc.domain + dom + angle_facts(enc)
    twin, _ = q.check(base)
    r, m = q.check(base + [z3.Or([t != 0 for t in ts])])
    if r == "unsat" and twin != "sat":
        r = "vacuous-domain"
    rec = {"name": name, "verdict": {"unsat": "discharged", "sat": "candidate"}.get(r, "inconclusive"), "why": r, "queries": 2, "solver_s": _t.time() - t0}
    if samples and r == "unsat":
        rec["sample"] = samples
    return rec


def c15_point_inputs(ss, a, b):
    """kinds of iterables (tuple, generator, map, iterator, dict values) for which AppliedPoint / convert_point differ from the list-built point
    (finite enumeration of input containers; symbolic coordinates)"""
    from symplyphysics.core.experimental.points import AppliedPoint
    from symplyphysics.core.experimental.coordinate_systems import convert_point
    cs = list(sp.symbols("c1 c2 c3", positive=True))
    ref = AppliedPoint(list(cs), ss[a])
    refc = convert_point(ref, ss[b]).coordinates
    makers = {"tuple": lambda: tuple(cs), "generator": lambda: (c for c in cs), "map": lambda: map(lambda c: c, cs), "iterator": lambda: iter(cs),
              "dict values": lambda: dict(enumerate(cs)).values()}
    bad = []
    for nm, mk in makers.items():
        try:
            P = AppliedPoint(mk(), ss[a])
            if dict(P.coordinates) != dict(ref.coordinates) or dict(convert_point(P, ss[b]).coordinates) != dict(refc):
                bad.append(nm)
        except Exception as e:
            bad.append(f"{nm} (raises {type(e).__name__})")
    return bad


def work(item):
    from symplyphysics.core.experimental.coordinate_systems import express_base_scalars, express_base_vectors, convert_point, convert_vector
    from symplyphysics.core.experimental.points import AppliedPoint
    kind = item[0]
    timeout = item[-1]
    q = Query(None, timeout_ms=timeout)
    ss = systems()
    out = []
    try:
        if kind == "scalars_textbook":
            a = item[1]           # Cartesian scalars in terms of a's scalars must be the textbook position map
            enc = Enc()
            m = scalars_in_terms_of(ss, "cart", a)
            want = textbook_position(a, ss[a].base_scalars)
            got = [m[s] for s in ss["cart"].base_scalars]
            out.append(decide(q, enc, f"Cartesian position in {a} scalars = textbook", [g - w for g, w in zip(got, want)], domain(enc, a, ss[a]),
                              {"map": {str(k): str(v) for k, v in m.items()}}))
        elif kind == "scalars_roundtrip":
            a, b = item[1], item[2]
            enc = Enc()
            mab = scalars_in_terms_of(ss, a, b)       # a-scalars as functions of b-scalars
            mba = scalars_in_terms_of(ss, b, a)       # b-scalars as functions of a-scalars
            dom = domain(enc, a, ss[a])
            comp = [mab[s].subs(mba, simultaneous=True) for s in ss[a].base_scalars]
            out.append(decide(q, enc, f"scalars {a}->{b}->{a} = identity", [c - s for c, s in zip(comp, ss[a].base_scalars)], dom,
                              {"composed": [str(c)[:100] for c in comp]}))
        elif kind == "scalars_triple":
            a, b, c = item[1:4]
            enc = Enc()
            mac = scalars_in_terms_of(ss, a, c)
            mab = scalars_in_terms_of(ss, a, b)
            mbc = scalars_in_terms_of(ss, b, c)
            dom = domain(enc, c, ss[c])
            via = [mab[s].subs(mbc, simultaneous=True) for s in ss[a].base_scalars]
            out.append(decide(q, enc, f"scalars {a} in {c} direct = via {b}", [mac[s] - v for s, v in zip(ss[a].base_scalars, via)], dom))
        elif kind in ("vectors_pair", "vectors_triple", "vectors_geometry"):
            pts = {n: AppliedPoint(list(ss[n].base_scalars), ss[n]) for n in NAMES}

            def M(a, b):
                mp = express_base_vectors(ss[a], ss[b], old_args=(pts[a],), new_args=(pts[b],))
                return coeff_matrix(mp, ss[a].base_vectors(pts[a]), ss[b].base_vectors(pts[b]))   # entries in b's scalars
            if kind == "vectors_pair":
                a, b = item[1], item[2]
                enc = Enc()
                dom = domain(enc, b, ss[b])
                Mab = M(a, b)
                I = sp.eye(3)
                ortho = list(Mab * Mab.T - I)
                out.append(decide(q, enc, f"base vectors {a}->{b}: M M^T = I", ortho, dom, {"M": [[str(x)[:60] for x in Mab.row(i)] for i in range(3)]}))
                enc = Enc()
                dom = domain(enc, b, ss[b])
                out.append(decide(q, enc, f"base vectors {a}->{b}: det M = 1", [Mab.det() - 1], dom))
                enc = Enc()
                dom = domain(enc, b, ss[b])
                Mba = M(b, a).subs(scalars_in_terms_of(ss, a, b), simultaneous=True)   # now in b's scalars
                out.append(decide(q, enc, f"base vectors {b}->{a} inverts {a}->{b}", list(Mab * Mba - I), dom))
            elif kind == "vectors_triple":
                a, b, c = item[1:4]
                enc = Enc()
                dom = domain(enc, c, ss[c])
                Mac = M(a, c)
                Mab = M(a, b).subs(scalars_in_terms_of(ss, b, c), simultaneous=True)
                Mbc = M(b, c)
                out.append(decide(q, enc, f"base vectors {a}->{c} direct = via {b}", list(Mac - Mab * Mbc), dom))
            else:
                a = item[1]     # rows of M(a -> cart), rewritten in a's scalars, are the textbook unit vectors = normalised position derivatives
                enc = Enc()
                dom = domain(enc, a, ss[a])
                Mac = M(a, "cart").subs(scalars_in_terms_of(ss, "cart", a), simultaneous=True)
                want = textbook_basis(a, ss[a].base_scalars)
                out.append(decide(q, enc, f"base vectors of {a} in Cartesian components = textbook local basis", list(Mac - want), dom))
                # Lame coefficients: h_i >= 0 and h_i^2 = |dX/dq_i|^2, e_i = (dX/dq_i)/h_i
                enc = Enc()
                dom = domain(enc, a, ss[a])
                X = sp.Matrix([scalars_in_terms_of(ss, "cart", a)[s] for s in ss["cart"].base_scalars]) if a != "cart" else sp.Matrix(list(ss["cart"].base_scalars))
                hs = ss[a].lame_coefficients
                diffs = []
                for i, qi in enumerate(ss[a].base_scalars):
                    dX = X.diff(qi)
                    diffs.append(hs[i]**2 - (dX.T * dX)[0, 0])
                    diffs += list(dX - hs[i] * want.row(i).T)
                rec = decide(q, enc, f"Lame coefficients of {a}: h_i^2 = |dX/dq_i|^2 and dX/dq_i = h_i e_i", diffs, dom, {"h": [str(h) for h in hs]})
                out.append(rec)
                enc = Enc()
                dom = domain(enc, a, ss[a])
                base = enc.assume + dom
                neg = [enc.tr(h) < 0 for h in hs]
                r, _ = q.check(base + enc.side + enc.domain + [z3.Or(neg)])
                out.append({"name": f"Lame coefficients of {a} are non-negative", "verdict": "discharged" if r == "unsat" else ("candidate" if r == "sat" else "inconclusive"), "why": r})
        elif kind == "point":
            a, b = item[1], item[2]
            enc = Enc()
            dom = domain(enc, a, ss[a])
            P = AppliedPoint(list(ss[a].base_scalars), ss[a])
            Pb = convert_point(P, ss[b])
            # Cartesian position unchanged
            posa = textbook_position(a, ss[a].base_scalars)
            posb = textbook_position(b, [Pb.coordinates[s] for s in ss[b].base_scalars])
            out.append(decide(q, enc, f"convert_point {a}->{b} keeps the Cartesian position", [u - v for u, v in zip(posa, posb)], dom))
            enc = Enc()
            dom = domain(enc, a, ss[a])
            Pback = convert_point(Pb, ss[a])
            out.append(decide(q, enc, f"convert_point {a}->{b}->{a} = identity", [Pback.coordinates[s] - s for s in ss[a].base_scalars], dom))
        elif kind == "point_inputs":
            a, b = item[1], item[2]
            bad_kinds = c15_point_inputs(ss, a, b)
            out.append({"name": f"convert_point {a}->{b}: the same point whatever iterable gives its coordinates", "verdict": "candidate" if bad_kinds else "discharged",
                        "why": f"coordinates given as {bad_kinds} convert differently from the same coordinates given as a list", "trivial": True})
        elif kind == "vector":
            a, b = item[1], item[2]
            enc = Enc()
            dom = domain(enc, a, ss[a])
            P = AppliedPoint(list(ss[a].base_scalars), ss[a])
            comps = sp.symbols("v1 v2 v3", real=True)
            # not the first conversion between these two system objects: another vector at ANOTHER point has been converted before
            P0 = AppliedPoint([sp.Rational(3, 2), sp.Rational(1, 3), sp.Rational(2, 3)], ss[a])
            convert_vector(sum((c * e for c, e in zip((1, 2, 3), ss[a].base_vectors(P0))), sp.S.Zero), P0, ss[b])
            ea = ss[a].base_vectors(P)
            v = sum((c * e for c, e in zip(comps, ea)), sp.S.Zero)
            w = convert_vector(v, P, ss[b])
            from symplyphysics.core.experimental.coordinate_systems import convert_point as cp
            Pb = cp(P, ss[b])
            eb = ss[b].base_vectors(Pb)
            w = sp.expand(w)
            wc = [w.coeff(e) for e in eb]
            rest = sp.expand(w - sum((c * e for c, e in zip(wc, eb)), sp.S.Zero))
            if rest != 0:
                out.append({"name": f"convert_vector {a}->{b}", "verdict": "candidate", "why": f"result is not a combination of the new base vectors at the converted point: {rest}"})
            else:
                ca = list(textbook_basis(a, ss[a].base_scalars).T * sp.Matrix(comps))
                qb = [Pb.coordinates[s] for s in ss[b].base_scalars]
                cb = list(textbook_basis(b, qb).T * sp.Matrix(wc))
                out.append(decide(q, enc, f"convert_vector {a}->{b} keeps the Cartesian components", [u - v_ for u, v_ in zip(ca, cb)], dom,
                                  {"new_components": [str(c)[:80] for c in wc]}))
            # a vector written with an UNEVALUATED cross product of base vectors (c1 e1 x e3 + c2 e2): every base vector in it is converted
            from symplyphysics.core.experimental.vectors import VectorCross
            v2 = comps[0] * VectorCross(ea[0], ea[2], evaluate=False) + comps[1] * ea[1]
            w2 = convert_vector(v2, P, ss[b])
            Ta, Tb = textbook_basis(a, ss[a].base_scalars), textbook_basis(b, qb if rest == 0 else [Pb.coordinates[s_] for s_ in ss[b].base_scalars])
            try:
                got2 = cart_value(w2, {e: list(Tb.row(i)) for i, e in enumerate(eb)})
                want2 = [comps[0] * x_ + comps[1] * y_ for x_, y_ in zip(cross3(list(Ta.row(0)), list(Ta.row(2))), list(Ta.row(1)))]
                enc2 = Enc()
                out.append(decide(q, enc2, f"convert_vector {a}->{b} converts base vectors inside an unevaluated cross product", [u - v_ for u, v_ in zip(got2, want2)], domain(enc2, a, ss[a])))
            except KeyError as e:
                out.append({"name": f"convert_vector {a}->{b} converts base vectors inside an unevaluated cross product", "verdict": "candidate",
                            "why": f"the converted vector still contains {e.args[0]}, which is not a base vector of the new system at the converted point"})
    except Unencodable as e:
        out.append({"name": f"{item[:-1]}", "verdict": "unencoded", "why": str(e)})
    except Exception as e:
        out.append({"name": f"{item[:-1]}", "verdict": "candidate", "why": f"raised {type(e).__name__}: {e}"})
    for o in out:
        o["item"] = list(item[:-1])
    return out


def cross3(u, v):
    return [u[1] * v[2] - u[2] * v[1], u[2] * v[0] - u[0] * v[2], u[0] * v[1] - u[1] * v[0]]


def cart_value(expr, basis):
    """Cartesian components of a vector expression over base vectors (`basis`: base vector -> textbook triple), sums, scalar multiples and
    cross products, evaluated or not; KeyError(vector) for a vector leaf that is not in `basis`"""
    from symplyphysics.core.experimental import vectors as V
    expr = sp.sympify(expr)
    if expr == 0:
        return [sp.S.Zero] * 3
    if expr in basis:
        return list(basis[expr])
    if isinstance(expr, V.VectorCross):
        return cross3(cart_value(expr.args[0], basis), cart_value(expr.args[1], basis))
    if isinstance(expr, sp.Add):
        parts = [cart_value(t, basis) for t in expr.args]
        return [sum(p_[i] for p_ in parts) for i in range(3)]
    def is_vec(f):
        return isinstance(f, V.VectorExpr) or f in basis or (isinstance(f, (sp.Add, sp.Mul)) and any(is_vec(g) for g in f.args))
    if isinstance(expr, sp.Mul):
        vecs = [f for f in expr.args if is_vec(f)]
        if len(vecs) != 1:
            raise KeyError(expr)
        k = sp.Mul(*[f for f in expr.args if f is not vecs[0]])
        return [k * c for c in cart_value(vecs[0], basis)]
    raise KeyError(expr)


REPLAY = r'''
import sys
import sympy as sp
from checks import c15
from symplyphysics.core.experimental.coordinate_systems import express_base_scalars, express_base_vectors, convert_point, convert_vector
from symplyphysics.core.experimental.points import AppliedPoint
item = {item!r}
ss = c15.systems()
# numeric points in each system's domain (generic, y < 0 and x < 0 included)
# ... and points ON the coordinate planes (x = 0, y = 0, z = 0; azimuth +-pi/2, pi; polar angle pi/2), which are inside every domain
PTS = {{"cart": [(sp.Rational(3, 2), -2, sp.Rational(1, 2)), (-1, sp.Rational(1, 3), -2), (-2, -1, 3), (0, 2, 1), (0, -2, -1), (3, 0, 1), (-3, 0, 2), (1, 2, 0)],
       "cyl": [(sp.Rational(5, 2), -sp.Rational(7, 3), sp.Rational(1, 2)), (sp.Rational(1, 3), sp.Rational(5, 2), -1), (2, sp.Rational(1, 2), 1), (2, sp.pi / 2, 1), (2, -sp.pi / 2, -1), (3, sp.pi, 0), (1, 0, 2)],
       "sph": [(sp.Rational(5, 2), sp.Rational(2, 3), -sp.Rational(7, 3)), (sp.Rational(1, 3), sp.Rational(5, 2), sp.Rational(5, 2)), (2, 1, sp.Rational(1, 2)), (2, sp.pi / 2, sp.pi / 2), (2, sp.pi / 2, -sp.pi / 2), (3, 1, sp.pi), (1, sp.pi / 2, 0)]}}
def N(e): return sp.N(e, 25)
def close(a, b): return abs(N(a) - N(b)) < 1e-15 * (1 + abs(N(a)) + abs(N(b)))
bad = False
kind = item[0]
def sub(e, sys_name, pt): return sp.sympify(e).subs(dict(zip(ss[sys_name].base_scalars, pt)), simultaneous=True)
def M(a, b):
    pts = {{n: AppliedPoint(list(ss[n].base_scalars), ss[n]) for n in c15.NAMES}}
    mp = express_base_vectors(ss[a], ss[b], old_args=(pts[a],), new_args=(pts[b],))
    return c15.coeff_matrix(mp, ss[a].base_vectors(pts[a]), ss[b].base_vectors(pts[b]))
def to_sys(name, cart_pt):
    m = c15.scalars_in_terms_of(ss, name, "cart")
    return [sub(m[s], "cart", cart_pt) for s in ss[name].base_scalars]
try:
    for cart_pt in PTS["cart"]:
        if kind == "scalars_textbook":
            a = item[1]; pa = to_sys(a, cart_pt) if a != "cart" else cart_pt
            m = c15.scalars_in_terms_of(ss, "cart", a)
            got = [sub(m[s], a, pa) for s in ss["cart"].base_scalars]; want = c15.textbook_position(a, pa)
            if not all(close(g, w) for g, w in zip(got, want)): bad = True; print("position", got, want)
        elif kind == "scalars_roundtrip":
            a, b = item[1], item[2]
            for pa in PTS[a]:
                mab = c15.scalars_in_terms_of(ss, a, b); mba = c15.scalars_in_terms_of(ss, b, a)
                pb = [sub(mba[s], a, pa) for s in ss[b].base_scalars]; back = [sub(mab[s], b, pb) for s in ss[a].base_scalars]
                if not all(close(u, v) for u, v in zip(back, pa)): bad = True; print(a, pa, "->", b, pb, "->", back)
        elif kind == "scalars_triple":
            a, b, c = item[1:4]
            for pc in PTS[c]:
                mac = c15.scalars_in_terms_of(ss, a, c); mab = c15.scalars_in_terms_of(ss, a, b); mbc = c15.scalars_in_terms_of(ss, b, c)
                pb = [sub(mbc[s], c, pc) for s in ss[b].base_scalars]
                d = [sub(mac[s], c, pc) for s in ss[a].base_scalars]; v = [sub(mab[s], b, pb) for s in ss[a].base_scalars]
                if not all(close(x, y) for x, y in zip(d, v)): bad = True; print("direct", d, "via", v)
        elif kind in ("vectors_pair", "vectors_triple", "vectors_geometry"):
            names = item[1:]
            pt = {{n: (to_sys(n, cart_pt) if n != "cart" else list(cart_pt)) for n in c15.NAMES}}
            Mn = lambda a, b: sp.Matrix(3, 3, [N(sub(x, b, pt[b])) for x in M(a, b)])
            if kind == "vectors_pair":
                a, b = names; A = Mn(a, b); B = Mn(b, a)
                ok = all(abs(x) < 1e-12 for x in (A * A.T - sp.eye(3))) and abs(A.det() - 1) < 1e-12 and all(abs(x) < 1e-12 for x in (A * B - sp.eye(3)))
            elif kind == "vectors_triple":
                a, b, c = names; ok = all(abs(x) < 1e-12 for x in (Mn(a, c) - Mn(a, b) * Mn(b, c)))
            else:
                a = names[0]; want = c15.textbook_basis(a, pt[a]); ok = all(abs(N(x)) < 1e-12 for x in (Mn(a, "cart") - want))
                hs = ss[a].lame_coefficients
                X = sp.Matrix(c15.textbook_position(a, ss[a].base_scalars))
                for i, qi in enumerate(ss[a].base_scalars):
                    dX = X.diff(qi); n2 = sub((dX.T * dX)[0, 0], a, pt[a])
                    if not close(sub(hs[i], a, pt[a])**2, n2) or N(sub(hs[i], a, pt[a])) < 0: ok = False; print("Lame", i, hs[i])
            if not ok: bad = True; print("base-vector matrix check fails at", cart_pt)
        elif kind == "point":
            a, b = item[1], item[2]
            pa = to_sys(a, cart_pt) if a != "cart" else list(cart_pt)
            Pb = convert_point(AppliedPoint(pa, ss[a]), ss[b]); qb = [Pb.coordinates[s] for s in ss[b].base_scalars]
            back = convert_point(Pb, ss[a]); qa = [back.coordinates[s] for s in ss[a].base_scalars]
            if not all(close(u, v) for u, v in zip(c15.textbook_position(b, qb), cart_pt)): bad = True; print("position changed", qb)
            if not all(close(u, v) for u, v in zip(qa, pa)): bad = True; print("round trip", pa, qa)
        elif kind == "point_inputs":
            bk = c15.c15_point_inputs(ss, item[1], item[2])
            if bk: bad = True; print("coordinates given as", bk, "convert differently from the same coordinates given as a list")
        elif kind == "vector":
            a, b = item[1], item[2]
            pa = to_sys(a, cart_pt) if a != "cart" else list(cart_pt)
            P0 = AppliedPoint([sp.Rational(3, 2), sp.Rational(1, 3), sp.Rational(2, 3)], ss[a])
            convert_vector(sum((c * e for c, e in zip((1, 2, 3), ss[a].base_vectors(P0))), sp.S.Zero), P0, ss[b])      # an earlier conversion at another point
            P = AppliedPoint(pa, ss[a]); comps = [sp.Rational(2, 3), -sp.Rational(5, 4), sp.Rational(7, 2)]
            v = sum((c * e for c, e in zip(comps, ss[a].base_vectors(P))), sp.S.Zero)
            w = sp.expand(convert_vector(v, P, ss[b])); Pb = convert_point(P, ss[b]); eb = ss[b].base_vectors(Pb)
            wc = [w.coeff(e) for e in eb]
            ca = list(c15.textbook_basis(a, pa).T * sp.Matrix(comps)); qb = [Pb.coordinates[s] for s in ss[b].base_scalars]
            cb = list(c15.textbook_basis(b, qb).T * sp.Matrix(wc))
            if sp.expand(w - sum((c * e for c, e in zip(wc, eb)), sp.S.Zero)) != 0 or not all(close(u, v_) for u, v_ in zip(ca, cb)): bad = True; print("vector", ca, cb)
            from symplyphysics.core.experimental.vectors import VectorCross
            ea = ss[a].base_vectors(P)
            w2 = convert_vector(comps[0] * VectorCross(ea[0], ea[2], evaluate=False) + comps[1] * ea[1], P, ss[b])
            Ta, Tb = c15.textbook_basis(a, pa), c15.textbook_basis(b, qb)
            try:
                got2 = c15.cart_value(w2, {{e: list(Tb.row(i)) for i, e in enumerate(eb)}})
                want2 = [comps[0] * x_ + comps[1] * y_ for x_, y_ in zip(c15.cross3(list(Ta.row(0)), list(Ta.row(2))), list(Ta.row(1)))]
                if not all(close(u, v_) for u, v_ in zip(got2, want2)): bad = True; print("vector with an unevaluated cross product", got2, want2)
            except KeyError as e:
                bad = True; print("converted vector still contains", e.args[0])
except Exception as e:
    print("raised", type(e).__name__, e); bad = True
if bad:
    print("REPRODUCED"); sys.exit(1)
'''


def run(ctx):
    timeout = 120000 if ctx.tier == "thorough" else 20000
    items = []
    for a in ("cyl", "sph"):
        items.append(("scalars_textbook", a, timeout))
    for a in NAMES:
        items.append(("vectors_geometry", a, timeout))
    for a, b in itertools.permutations(NAMES, 2):
        items += [("scalars_roundtrip", a, b, timeout), ("vectors_pair", a, b, timeout), ("point", a, b, timeout), ("point_inputs", a, b, timeout), ("vector", a, b, timeout)]
    for a, b, c in itertools.permutations(NAMES, 3):
        items += [("scalars_triple", a, b, c, timeout), ("vectors_triple", a, b, c, timeout)]
    ctx.explanation = (
        "Engine S. The real express_base_scalars / express_base_vectors dispatch tables, convert_point, convert_vector and lame_coefficients "
        "are executed on symbolic points (base scalars) and symbolic vector components; the resulting expressions (sqrt, atan2, sin, cos) are "
        "translated with definitional axioms (atan2/acos angle with its (sin, cos) pair, ranges, sign facts, equal-(sin,cos)-in-range => equal "
        "angle) and z3 decides over ALL points of each system's domain: round trips, textbook position map, M M^T = I, det M = 1, reverse = "
        "inverse, direct = via third system (scalars and base vectors, all 6 triples), base vectors = textbook local basis = normalised "
        "position derivatives with the Lame coefficients, point / vector conversion preserves Cartesian position / components.")
    ctx.functions_encoded = ["express_base_scalars (7 dispatch targets)", "express_base_vectors (7 dispatch targets)", "convert.convert_point", "convert.convert_vector",
                             "*CoordinateSystem.lame_coefficients", "points.AppliedPoint"]
    ctx.bounds = ["domains: Cartesian x^2+y^2 > 0; cylindrical rho > 0, -pi < phi <= pi; spherical r > 0, 0 < theta < pi, -pi < phi <= pi",
                  f"z3 timeout {timeout} ms per query"]
    ctx.outside = ["points on the polar axis / origin", "angles outside the principal ranges"]
    ctx.trusted = ["z3 nlsat", "Sym2SMT axioms for atan2/sin/cos (sound facts only)", "textbook position maps and local bases in checks/c15.py"]
    res = pmap(work, items, chunk=1)
    for rl in res:
        if isinstance(rl, dict):
            ctx.harness_errors.append(rl.get("error", "")[-300:])
            continue
        for r in rl:
            ctx.add_solver(r.get("queries", 0), r.get("solver_s", 0.0))
            if r["verdict"] == "discharged":
                ctx.ob(r["name"], "discharged", sample={"obligation": r["name"], **r["sample"]} if r.get("sample") else None)
            elif r["verdict"] in ("unencoded", "inconclusive"):
                ctx.ob(r["name"], r["verdict"], r["why"])
            else:
                ctx.violation("C15:" + r["name"], f"{r['name']}: {r['why']}", REPLAY.format(item=r["item"]))
